"""Stand-in for the external pel-message-registry package (the documented
integration point of registry.py / comp_id.py), used by the verification
harness only."""
import os


def get_registry_path():
    return os.path.join(os.path.dirname(__file__), 'message_registry.json')
