"""C09 - unreadable files in a PEL directory never disturb the output for the others.

Metamorphic relation: stdout(dir + junk) == stdout(dir), byte for byte, for
every directory mode; junk is classified per mode by running the mode on the
junk file alone.
"""
import json
import os

from hypothesis import strategies as st

from .. import cli
from .. import dirs as D
from .. import model as M
from .. import strategies as S
from ..core import Property, Violation
from .c05 import corruption_case, damage, random_bytes

PROP = Property(
    'C09', 'fault_enumeration',
    rule=('Generated: a directory of 1..6 well-formed PELs plus 1..5 junk entries - empty files, proper prefixes, '
          'byte-corrupted PELs (including undersized PCE / FRU / MRU substructures), random bytes, deeply nested '
          'JSON user data, sub-directories holding good PELs - whose names sort before, between and after the good '
          'ones; modes -l, -a, -n, --plid, --src, --src-exclude, -j, with/without -x. A junk file is kept only if the '
          'mode, run on that file alone, reports nothing for it. Oracle: stdout(dir+junk) == stdout(dir) byte for '
          'byte (for -j: the same files written), exit status 0, stdout is one JSON document or a sequence of hex '
          'blocks, no traceback on stderr. Non-trivial = >= 2 good PELs with junk sorted before/between/after them '
          'and at least one junk file that fails after the two headers.'),
    assumptions=['"cannot decode" is decided per mode by running the mode on the junk file alone',
                 'tests run as root, so permission-denied files cannot be produced: unreadable = undecodable'],
    design_ref='4/C09')

MODES = ['-l', '-a', '-n', '--plid', '--src', '--src-exclude', '-j']


@st.composite
def junk(draw, tier):
    kind = draw(st.sampled_from(['empty', 'prefix', 'corrupt', 'corrupt', 'random', 'deep-json', 'subdir',
                                 'bad-substructure', 'non-ascii', 'bad-header-id', 'bad-header-id', 'no-primary-src',
                                 'matching-but-damaged', 'matching-but-damaged']))
    if kind == 'empty':
        return {'kind': kind, 'data': b''}
    if kind == 'random':
        return {'kind': kind, 'data': draw(random_bytes)}
    if kind == 'subdir':
        n = draw(st.integers(0, 2))
        return {'kind': kind, 'pels': [draw(D.dir_pel(0x60000000 + i, selectable=True)) for i in range(n)]}
    if kind == 'deep-json':
        depth = draw(st.sampled_from([2000, 5000, 30000]))
        payload = b'[' * depth + b']' * depth
        pel = M.minimal_pel([M.default_src(), {'k': 'UD', 'ver': 1, 'sub': 1, 'comp': 0x2000, 'data': payload}],
                            ph=M.default_ph(eid=0x61000000, creator=ord('O')))
        return {'kind': kind, 'data': M.encode(pel)}
    if kind == 'bad-header-id':
        # one of the two mandatory headers does not carry its id; everything else is intact
        pel = draw(D.dir_pel(0x64000000, selectable=draw(st.booleans()) or None))
        data = bytearray(M.encode(pel))
        off = draw(st.sampled_from([0, 1, 48, 48, 49, 49]))
        data[off] = draw(st.sampled_from([0x00, 0x58, 0x75, 0xFF, data[off] ^ 0x20]))
        if bytes(data[0:2]) == b'PH' and bytes(data[48:50]) == b'UH':
            data[48] = 0x58
        return {'kind': kind, 'data': bytes(data)}
    if kind == 'matching-but-damaged':
        # intact headers, the platform log id / reference code the look-up asks for, damage further on
        src = M.default_src(wc=draw(st.sampled_from([9, 9, 10, 200])))
        pel = M.minimal_pel([src, {'k': 'UD', 'ver': 1, 'sub': 1, 'comp': 0x2000, 'data': b'{"k": 1}'}],
                            ph=M.default_ph(eid=0x67000000, plid=0x50000001))
        data = bytearray(M.encode(pel))
        how = draw(st.sampled_from(['cut-in-src', 'cut-after-src', 'utf8-in-src', 'wordcount']))
        if how == 'cut-in-src':
            data = data[:draw(st.integers(73, 150))]
        elif how == 'cut-after-src':
            data = data[:len(data) - draw(st.integers(1, 10))]
        elif how == 'utf8-in-src':
            data[M.offsets(pel)[2] + 50] = 0xFF
        return {'kind': kind, 'data': bytes(data)}
    if kind == 'no-primary-src':
        # headers intact but the section count lies / the SRC id is damaged
        pel = M.minimal_pel([M.default_src(), {'k': 'UD', 'ver': 1, 'sub': 1, 'comp': 0x2000, 'data': b'{}'}],
                            ph=M.default_ph(eid=0x65000000))
        data = bytearray(M.encode(pel))
        how = draw(st.sampled_from(['count', 'src-id', 'count-high']))
        if how == 'count':
            data[27] = draw(st.integers(0, 2))
        elif how == 'count-high':
            data[27] = draw(st.integers(5, 255))
        else:
            data[72] = draw(st.sampled_from([0x00, 0x51, 0x70]))
        return {'kind': kind, 'data': bytes(data)}
    if kind == 'non-ascii':
        # bytes that are not valid UTF-8 where the decoder expects text (a different exception type than
        # the range-check failures of truncated files)
        where = draw(st.sampled_from(['creator', 'src-ascii', 'mtms']))
        pel = M.minimal_pel([M.default_src(), {'k': 'MT', 'ver': 1, 'sub': 0, 'comp': 0, 'mtm': b'9105-22A',
                                               'sn': b'SN1234567890'}],
                            ph=M.default_ph(eid=0x63000000, creator=ord('O')))
        data = bytearray(M.encode(pel))
        off = {'creator': 24, 'src-ascii': M.offsets(pel)[2] + 48, 'mtms': M.offsets(pel)[3] + 9}[where]
        data[off] = draw(st.sampled_from([0x80, 0xFF, 0xC0, 0xFE]))
        return {'kind': kind, 'data': bytes(data)}
    if kind == 'bad-substructure':
        # a PEL whose PCE / FRU / MRU substructure size byte is wrong
        c = draw(S.callout())
        if c['pce'] is None:
            c['pce'] = {'flags': 0, 'mtm': M.pad_text('9105-22A', 8), 'sn': M.pad_text('SN12345', 12),
                        'name': M.pad_text('pce', 4)}
        if len(M.enc_callout(c)) > 255:
            c['mru'] = None
        src = M.default_src(flags=1, callouts={'ssid': 0xC0, 'ssflags': 0, 'list': [c]})
        pel = M.minimal_pel([src, {'k': 'UD', 'ver': 1, 'sub': 1, 'comp': 0x2000, 'data': b'{"a": 1}'}],
                            ph=M.default_ph(eid=0x62000000, creator=ord('O')))
        data = bytearray(M.encode(pel))
        base = M.offsets(pel)[2] + 84 + 4 + len(c['loc'])
        which = draw(st.sampled_from(['fru', 'pce', 'pce', 'mru']))
        off = base
        if which in ('pce', 'mru'):
            off += len(M.enc_fru(c['fru']))
        if which == 'mru':
            off += len(M.enc_pce(c['pce']))
        if off + 2 < len(data):
            data[off + 2] = draw(st.one_of(st.integers(0, 23), st.integers(0, 255)))
        return {'kind': kind, 'data': bytes(data)}
    cc = draw(corruption_case(tier))
    if kind == 'prefix':
        n = len(M.encode(cc['pel']))
        cc['edits'], cc['splice'], cc['trunc'] = [], None, draw(st.integers(0, max(n - 1, 0)))
    return {'kind': kind, 'data': damage(cc)}


@st.composite
def junk_header(draw, tier):
    pel = draw(D.dir_pel(0x66000000, selectable=draw(st.booleans()) or None))
    data = bytearray(M.encode(pel))
    off = draw(st.sampled_from([48, 49, 0, 1]))
    data[off] = draw(st.sampled_from([0x00, 0x58, 0x75, 0xFF]))
    return {'kind': 'bad-header-id', 'data': bytes(data)}


@st.composite
def case_strategy(draw, tier):
    ngood = draw(st.integers(1, 6))
    eids = D.distinct_eids(draw, ngood)
    plids = draw(st.sampled_from([[0x50000001], [0x50000001, 0x50000002]]))
    codes = ['BD8D1234', 'BD8D5678', '11002200', 'BC8A0001']
    good = []
    for i, e in enumerate(eids):
        good.append(draw(D.dir_pel(e, selectable=True, plid=draw(st.sampled_from(plids)), refcodes=codes)))
    # names: good files get letters b, d, f, ...; junk is slotted before / between / after
    junks = draw(st.lists(junk(tier), min_size=1, max_size=5))
    slots = [draw(st.integers(0, ngood)) for _ in junks]
    sel = draw(D.selection()) if draw(st.booleans()) else {'on': [False] * 6, 'groups': []}
    mode = draw(st.sampled_from(MODES + ['-n']))
    if mode == '-n' and draw(st.booleans()):
        # --every-pel skips the selection test: the header checks alone must keep junk out of the count
        sel = {'on': [True] + list(sel['on'][1:]), 'groups': sel['groups']}
        junks = junks + [draw(junk(tier)) for _ in range(0)] + [j for j in [draw(junk_header(tier))]]
        slots = slots + [draw(st.integers(0, ngood))]
    return {'good': good, 'junk': junks, 'slots': slots, 'mode': mode, 'sel': sel,
            'rev': draw(st.integers(0, 3)) == 0,
            'hex': draw(st.integers(0, 3)) == 0, 'exclude': draw(st.sampled_from([['BD8D1234'], [], ['11002200', 'BC8A0001']]))}


def good_name(i):
    return 'f%02d_pel' % (2 * i + 1)


def junk_name(slot, j):
    return 'f%02d_junk%d' % (2 * slot, j)


def mode_argv(case, d, outdir, exfile):
    m = case['mode']
    argv = ['-p', d]
    if m in ('-l', '-a', '-n'):
        argv.append(m)
    elif m == '--plid':
        argv += ['--plid', '50000001']
    elif m == '--src':
        argv += ['--src', 'BD8D']
    elif m == '--src-exclude':
        argv += ['--src-exclude', exfile]
    elif m == '-j':
        argv += ['-j', '-o', outdir]
    if case['hex'] and m != '-n' and m != '-j':
        argv.append('-x')
    if case.get('rev') and m != '-j':
        argv.append('-r')
    argv += D.selection_argv(case.get('sel') or {'on': [False] * 6, 'groups': []})
    return argv


def run_mode(case, files, note):
    """returns (CliResult, files written by -j)"""
    with D.TempDir('c09') as top:
        d = os.path.join(top, 'logs')
        outdir = os.path.join(top, 'out')
        os.makedirs(d)
        os.makedirs(outdir)
        D.write_files(d, files)
        exfile = os.path.join(top, 'exclude.txt')
        with open(exfile, 'w') as f:
            f.write('\n'.join(case['exclude']) + '\n')
        r = cli.forked(mode_argv(case, d, outdir, exfile), timeout=120)
        note.extra_eval += 1
        written = {}
        for n in sorted(os.listdir(outdir)):
            with open(os.path.join(outdir, n), 'rb') as f:
                written[n] = f.read()
        return r, written


def check_wellformed_output(case, r, what):
    if r.status != 0:
        raise Violation('C09.status', '%s exited with %r: %s' % (what, r.status, r.brief()), sig='C09.status')
    if 'Traceback (most recent call last)' in r.err:
        raise Violation('C09.traceback', '%s printed a traceback: %s' % (what, r.err[-600:]), sig='C09.traceback')
    if case['mode'] == '-j':
        return
    if case['hex'] and case['mode'] != '-n':
        from .c13 import split_blocks
        split_blocks(r.out)
        return
    try:
        json.loads(r.out)
    except ValueError as e:
        raise Violation('C09.json', '%s: stdout is not one well-formed JSON document (%s): %r'
                        % (what, e, r.out[:300]), sig='C09.json')


def reports_nothing(case, r, written):
    """the mode reported no PEL at all"""
    if case['mode'] == '-j':
        return not written
    if case['hex'] and case['mode'] != '-n':
        return 'PEL Begin' not in r.out
    doc = json.loads(r.out)
    if case['mode'] == '-n':
        return doc.get('Number of PELs found') == 0
    return len(doc) == 0


@PROP.given('junk-is-invisible', lambda tier: case_strategy(tier), quick=800, thorough=8000, shards_quick=8)
def junk_is_invisible(case, note):
    good_files = {good_name(i): M.encode(p) for i, p in enumerate(case['good'])}
    what = 'peltool %s%s' % (case['mode'], ' -x' if case['hex'] else '')
    # classify the junk for this mode
    kept = {}
    kinds = []
    for j, (jk, slot) in enumerate(zip(case['junk'], case['slots'])):
        name = junk_name(slot, j)
        if jk['kind'] == 'subdir':
            entry = {name + '/': None}
            for i, p in enumerate(jk['pels']):
                entry['%s/nested%02d' % (name, i)] = M.encode(p)
            kept.update(entry)
            kinds.append('subdir')
            continue
        solo, solo_written = run_mode(case, {name: jk['data']}, note)
        # whatever the directory contains, the output must be well formed
        check_wellformed_output(case, solo, what + ' (directory holding only %s file %s)' % (jk['kind'], name))
        # whether the file holds a PEL for this mode is decided WITHOUT --hex: the hex display presents the
        # same PELs as the JSON display (otherwise a tool that dumps junk would also classify it as a PEL)
        plain = dict(case, hex=False)
        if case['hex'] and case['mode'] not in ('-n', '-j'):
            psolo, pwritten = run_mode(plain, {name: jk['data']}, note)
            check_wellformed_output(plain, psolo, what.replace(' -x', '') + ' (directory holding only %s)' % name)
            nothing = reports_nothing(plain, psolo, pwritten)
            if nothing and not reports_nothing(case, solo, solo_written):
                raise Violation('C09.hex-phantom', '%s dumps the file %s between PEL markers although the same mode '
                                'without --hex reports no PEL for it' % (what, name), sig='C09.hex-phantom:%s' % case['mode'])
        else:
            nothing = reports_nothing(case, solo, solo_written)
        dd = jk['data']
        if not nothing and (len(dd) < 72 or dd[0:2] != b'PH' or dd[48:50] != b'UH'):
            # independent of what the tool thinks: a file without both headers holds no PEL
            raise Violation('C09.phantom', '%s reports a PEL for the file %s, which has no valid Private + User Header '
                            '(%d bytes, starts %s, bytes 48..49 %s): %r'
                            % (what, name, len(dd), dd[0:2].hex(), dd[48:50].hex(), solo.out[:200]),
                            sig='C09.phantom:%s' % case['mode'])
        if nothing:
            kept[name] = jk['data']
            kinds.append(jk['kind'])
        else:
            note.label('junk-decodes-in-this-mode')
    if not kept:
        note.label('no-junk-left')
        return
    base, base_written = run_mode(case, good_files, note)
    check_wellformed_output(case, base, what + ' (good PELs only)')
    both = dict(good_files)
    for k, v in kept.items():
        if k.endswith('/'):
            both[k.rstrip('/')] = None
        else:
            both[k] = v
    mixed, mixed_written = run_mode(case, both, note)
    check_wellformed_output(case, mixed, what + ' (with junk files)')
    if mixed.out != base.out:
        raise Violation('C09.stdout', '%s: adding junk files %r changes standard output:\nwithout: %r\nwith:    %r\n'
                        'stderr: %r' % (what, sorted(kept), base.out[:400], mixed.out[:400], mixed.err[:300]),
                        sig='C09.stdout:%s' % case['mode'])
    if mixed_written != base_written:
        raise Violation('C09.files', '%s: adding junk files %r changes the files written: %r vs %r'
                        % (what, sorted(kept), sorted(base_written), sorted(mixed_written)), sig='C09.files')
    slots = sorted({s for s, k in zip(case['slots'], case['junk'])})
    spread = len(case['good']) >= 2 and (0 in slots or len(case['good']) in slots) and \
        any(0 < s < len(case['good']) for s in slots) or len(set(slots)) >= 2
    late = any(k in ('corrupt', 'bad-substructure', 'deep-json', 'prefix') for k in kinds)
    note.nontrivial = bool(len(case['good']) >= 2 and spread and late)
    note.label('mode=' + case['mode'])
    for k in set(kinds):
        note.label('junk=' + k)
