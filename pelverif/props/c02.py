"""C02 - header-type sections display exactly the values encoded in the log."""
from hypothesis import strategies as st

from .. import expect as X
from .. import model as M
from .. import strategies as S
from ..core import Property, Violation
from ..run import R, must_decode, make_config, need
from ..util import Fill
from .c01 import expected_names

PROP = Property(
    'C02', 'exploration',
    rule=('Generated: PEL models biased to contain Extended User Header, Failing MTMS and Impacted Partition '
          'sections, all creators (PHYP with ASCII / zero-byte component ids), component ids present in / absent '
          'from a generated component-name table, full-width numeric fields with boundary boosting, text fields '
          'shorter than their width, 0..255 target partitions; enumerated: all 65 536 action-flag words and all '
          '256 values of every one-byte coded field. Every displayed field of PH, UH, EH, MT, LP is compared with '
          'the encoded value (ids numerically). Non-trivial = create != commit time, PLID != EID, and (an id below '
          '0x10000000, or an LP with >= 2 targets, or a text field shorter than its width).'),
    assumptions=['name tables (pel_values) are taken from the repo by design',
                 'component names are injected by replacing comp_id.componentIDs in the harness process',
                 'BCD timestamps have decimal nibbles only; text is printable ASCII'],
    design_ref='4/C02')


def can_inject_compnames():
    ci = R.comp_id
    return isinstance(getattr(ci, 'componentIDs', None), dict) and hasattr(ci, 'attemptedToParseCompIDs')


def set_compnames(compnames):
    ci = R.comp_id
    if not can_inject_compnames():
        return
    ci.componentIDs.clear()
    for k, v in (compnames or {}).items():
        ci.componentIDs[k] = dict(v)
    if not compnames:
        # mark the one-shot loader as done so that it does not look for an
        # installed pel_registry package
        ci.attemptedToParseCompIDs = True


def check_pel(pel, compnames, note, every=False):
    if compnames and not can_inject_compnames():
        compnames = None
        note.label('no-component-name-injection')
    set_compnames(compnames)
    try:
        data = M.encode(pel)
        o = must_decode(data, make_config(every_pel=every), oracle='C02.decode')
    finally:
        set_compnames(None)
    if o.doc is None:
        raise Violation('C02.json', 'output is not JSON (see C06)')
    names = expected_names(pel)
    creator = chr(pel['ph']['creator'])
    X.check_ph(need(o.doc, names[0]), pel['ph'], compnames)
    X.check_uh(need(o.doc, names[1]), pel['uh'], creator, compnames)
    for s, n in zip(pel['secs'], names[2:]):
        entry = need(o.doc, n)
        if s['k'] == 'EH':
            X.check_eh(n, entry, s, creator, compnames)
        elif s['k'] == 'MT':
            X.check_mt(n, entry, s, creator, compnames)
        elif s['k'] == 'LP':
            X.check_lp(n, entry, s, creator, compnames)
    return o


def header_secs():
    return st.lists(st.one_of(S.eh_section(), S.mt_section(), S.lp_section(), S.lp_section(max_targets=40),
                              S.ud_section(max_len=16), S.raw_section(max_len=16)), max_size=6)


@st.composite
def compnames_for(draw, pel):
    """component-name table that hits some of the PEL's component ids"""
    if draw(st.integers(0, 2)) == 0:
        return {}
    creator = chr(pel['ph']['creator'])
    comps = [pel['ph']['comp'], pel['uh']['comp']] + [s['comp'] for s in pel['secs']]
    table = {}
    for c in comps:
        if draw(st.booleans()):
            table['%04X' % c] = draw(st.sampled_from(['bmc common function', 'phosphor-logging', 'x', 'Ab:" c']))
    other = draw(st.sampled_from(['O', 'B', 'Z']))
    out = {creator: table}
    if other != creator:
        out[other] = {'%04X' % comps[0]: 'other creators name'}
    return out


@st.composite
def case_strategy(draw, tier='quick'):
    creator = draw(st.one_of(st.none(), st.sampled_from([ord('H'), ord('O'), ord('B')])))
    pel = draw(S.pel_model(creator=creator, secs=header_secs()))
    if creator == ord('H') and draw(st.booleans()):
        pel['ph']['comp'] = draw(st.sampled_from([0x4142, 0x4100, 0x0041, 0x0000, 0x7A7A, 0x2020]))
    return {'pel': pel, 'compnames': draw(compnames_for(pel))}


@PROP.given('fields', lambda tier: case_strategy(tier), quick=4000, thorough=60000, shards_quick=8)
def fields(case, note):
    pel = case['pel']
    check_pel(pel, case['compnames'], note)
    ph = pel['ph']
    small_id = ph['plid'] < 0x10000000 or ph['eid'] < 0x10000000
    lp2 = any(s['k'] == 'LP' and len(s['targets']) >= 2 for s in pel['secs'])
    short_text = any((s['k'] in ('EH', 'MT') and (s['mtm'].endswith(b'\0') or s['sn'].endswith(b'\0')))
                     for s in pel['secs'])
    distinct = ph['create'] != ph['commit'] and ph['plid'] != ph['eid']
    note.nontrivial = bool(distinct and (small_id or lp2 or short_text))
    for k in ('EH', 'MT', 'LP'):
        if any(s['k'] == k for s in pel['secs']):
            note.label('has-' + k)
    if small_id:
        note.label('id<0x10000000')
    if lp2:
        note.label('LP>=2targets')
    if any(s['k'] == 'LP' and len(s['targets']) % 2 for s in pel['secs']):
        note.label('LP-odd-count')
    if chr(ph['creator']) == 'H':
        note.label('PHYP')
    if case['compnames']:
        note.label('component-names')


# ---------------------------------------------------------------------------
# exhaustive sweeps
# ---------------------------------------------------------------------------

def sweep_cases(tier, seed):
    out = [['flags', lo, seed] for lo in range(0, 65536, 256)]
    for field in ('subsys', 'scope', 'sev', 'etype', 'states_lo', 'states_hi', 'creator', 'ver', 'sub'):
        out.append([field, 0, seed])
    out.append(['lp-targets', 0, seed])
    return out


@PROP.enum('sweeps', sweep_cases, chunk=8, exhaustive=True)
def sweeps(case, note):
    field, lo, seed = case
    f = Fill('C02sweep', field, lo, seed)
    n = 0
    if field == 'flags':
        values = range(lo, lo + 256)
    elif field == 'creator':
        values = range(0, 128)
    elif field == 'lp-targets':
        values = range(0, 256)
    else:
        values = range(256)
    for v in values:
        uh = M.default_uh(sev=f.int(0, 255), flags=f.int(0, 0xFFFF), subsys=f.int(0, 255), states=f.int(0, 0xFFFFFFFF))
        ph = M.default_ph(plid=f.int(0, 0xFFFFFFFF), eid=f.int(0, 0xFFFFFFFF), obmc=f.int(0, 0xFFFFFFFF))
        secs = []
        if field == 'flags':
            uh['flags'] = v
        elif field == 'states_lo':
            uh['states'] = (uh['states'] & 0xFFFFFF00) | v
        elif field == 'states_hi':
            uh['states'] = (uh['states'] & 0xFFFF00FF) | (v << 8)
        elif field == 'creator':
            ph['creator'] = v
        elif field in ('ver', 'sub'):
            ph[field] = v
            uh[field] = 255 - v
        elif field == 'lp-targets':
            secs = [{'k': 'LP', 'ver': 1, 'sub': 0, 'comp': 0x2000, 'pid': f.int(0, 0xFFFF),
                     'logid': f.int(0, 0xFFFFFFFF), 'name': M.pad_text(f.text(f.int(0, 8)), 12),
                     'targets': [f.int(0, 0xFFFF) for _ in range(v)], 'pad': 0}]
        else:
            uh[field] = v
        check_pel(M.minimal_pel(secs, ph=ph, uh=uh), None, note, every=True)
        n += 1
    note.points = n
    note.nontrivial_points = n
    note.sample = {'swept field': field, 'from': lo, 'values': n}
