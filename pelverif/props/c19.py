"""C19 - decoding a PEL gives the same result whatever was decoded before it.

Stateful (model-based) testing.  The system under test is ONE long-lived
process forked from a pristine state (decoder modules imported, nothing decoded
yet) and fed operations over a pipe, so its module-level caches accumulate as
in a real multi-file run.  The model of every operation is the outcome of the
same operation in a *fresh* fork of the pristine state.  Invariant after every
step: SUT outcome == fresh outcome.
"""
import json
import os
import pickle
import select
import shutil
import struct
import tempfile
import time
import traceback

import hypothesis
from hypothesis import settings, strategies as st, HealthCheck, Phase
from hypothesis.stateful import RuleBasedStateMachine, rule, precondition, Bundle, run_state_machine_as_test, \
    initialize

from .. import repoenv
repoenv.activate(with_registry_fixture=True)       # before the decoder is imported: fixture message registry

from .. import core                                 # noqa: E402
from .. import model as M                           # noqa: E402
from .. import plugins as PL                        # noqa: E402
from .. import strategies as S                      # noqa: E402
from .. import drawer as D_                         # noqa: E402
from ..core import Property, Violation, HarnessError, FacetResult   # noqa: E402
from .. import run as RUN                           # noqa: E402
from .c05 import corruption_case, damage            # noqa: E402

PROP = Property(
    'C19', 'exploration',
    rule=('Generated histories (Hypothesis rule-based state machine, <= 12 steps quick / <= 30 thorough) over a pool of '
          'PELs - well-formed (all section kinds, creators O/B/K/M/H, SRCs with registry hits, callouts with '
          'procedures, LP sections, I/O-drawer sections with ILOG entries on the order-sensitive patterns of the shipped '
          'table and trace buffers of shipped strings; siblings of the same creator), damaged (C05 generators), served by fixture parser modules whose behaviour is a '
          'function of their input only (raise ValueError / ImportError, return None, return a digest) - with '
          'operations decode(pel, options), decode_again(earlier), headers(pel), peltool -a / -a -r / -l over a '
          'directory of pool members in-process. The system under test is one long-lived process; the model is the '
          'same operation in a fresh fork of the pristine state (for a sample also a brand-new interpreter). '
          'Non-trivial history = >= 3 decode steps containing a repeat of an earlier PEL after a failed decode or '
          'after a PEL of a different creator/component.'),
    assumptions=['"fresh" = the state after importing the decoder modules (a sample of steps is cross-checked against '
                 'brand-new interpreters)',
                 'fixture parser behaviour depends on the arguments only, so any history dependence is the decoder\'s'],
    design_ref='4/C19')

FIXTURE_SPEC = {
    'udparsers': {'b1000': {'kind': 'input'}, 'babcd': {'kind': 'input'}, 'k1000': {'kind': 'input'},
                  'o1000': {'kind': 'input'}},
    'srcparsers': {'bsrc': {'kind': 'input'}, 'ksrc': {'kind': 'input'}, 'o2600': {'kind': 'input'}},
    'calloutparsers': {'bcallouts': {'kind': 'input'}, 'kcallouts': {'kind': 'input'}},
}


# ---------------------------------------------------------------------------
# operations (executed identically in the SUT and in fresh forks)
# ---------------------------------------------------------------------------

def execute(op):
    kind = op[0]
    if kind == 'decode':
        _, blob, cfg = op
        o = RUN.decode(blob, RUN.make_config(**cfg))
        if o.exc is not None:
            return ['rejected', type(o.exc).__name__]
        if not o.text:
            return ['empty']
        return ['doc', o.text]
    if kind == 'headers':
        import collections
        m = RUN.mods()
        stream = m['datastream'].DataStream(op[1], byte_order='big', is_signed=False)
        out = collections.OrderedDict()
        try:
            with RUN.captured():
                ok, ph = m['peltool'].generatePH(stream, out)
                if not ok:
                    return ['no-ph']
                ok, uh = m['peltool'].generateUH(stream, ph.creatorID, out)
                if not ok:
                    return ['no-uh']
            return ['headers', json.dumps(out)]
        except Exception as e:
            return ['rejected', type(e).__name__]
    if kind == 'cli':
        _, argv, files = op
        d = tempfile.mkdtemp(prefix='c19', dir='/dev/shm' if os.path.isdir('/dev/shm') else None)
        try:
            for name, blob in files:
                with open(os.path.join(d, name), 'wb') as f:
                    f.write(blob)
            try:
                status, out, err = RUN.main_inprocess(['-p', d] + list(argv))
            except Exception as e:
                return ['cli-raised', type(e).__name__]
            return ['cli', status, out]
        finally:
            shutil.rmtree(d, ignore_errors=True)
    if kind == 'json':
        # --json into an output directory that lives as long as this process: in the long-lived process earlier
        # steps have left their files there, in a fresh fork it is empty
        _, files = op
        if _state.get('outdir') is None:
            _state['outdir'] = tempfile.mkdtemp(prefix='c19o', dir='/dev/shm' if os.path.isdir('/dev/shm') else None)
        out = _state['outdir']
        d = tempfile.mkdtemp(prefix='c19', dir='/dev/shm' if os.path.isdir('/dev/shm') else None)
        try:
            for name, blob in files:
                with open(os.path.join(d, name), 'wb') as f:
                    f.write(blob)
            # files left by earlier steps get an ancient time stamp: whatever this run writes is recognisable
            for n in os.listdir(out):
                os.utime(os.path.join(out, n), ns=(0, 0))
            try:
                status, _o, err = RUN.main_inprocess(['-p', d, '-j', '-o', out])
            except Exception as e:
                return ['cli-raised', type(e).__name__]
            written = {}
            for n in sorted(os.listdir(out)):
                if os.stat(os.path.join(out, n)).st_mtime_ns != 0:
                    with open(os.path.join(out, n), 'rb') as f:
                        written[n] = f.read().decode('utf-8', 'replace')
            return ['json', status, json.dumps(written, sort_keys=True)]
        finally:
            shutil.rmtree(d, ignore_errors=True)
    raise HarnessError('unknown op %r' % (kind,))


_state = {'outdir': None}


def _send(fd, obj):
    b = pickle.dumps(obj)
    os.write(fd, struct.pack('>I', len(b)))
    view = memoryview(b)
    while view:
        n = os.write(fd, view)
        view = view[n:]


def _recv(fd, timeout):
    def read_exact(n):
        buf = b''
        while len(buf) < n:
            r, _, _ = select.select([fd], [], [], timeout)
            if not r:
                return None
            chunk = os.read(fd, n - len(buf))
            if not chunk:
                return None
            buf += chunk
        return buf
    head = read_exact(4)
    if head is None:
        return None
    body = read_exact(struct.unpack('>I', head)[0])
    if body is None:
        return None
    return pickle.loads(body)


def _serve(rfd, wfd):
    while True:
        op = _recv(rfd, None)
        if op is None or op == 'quit':
            break
        try:
            res = execute(op)
        except BaseException:
            res = ['harness-error', traceback.format_exc()]
        _send(wfd, res)
    if _state.get('outdir'):
        shutil.rmtree(_state['outdir'], ignore_errors=True)
    os._exit(0)


class Server:
    """a long-lived fork of the pristine state"""

    def __init__(self):
        check_pristine()
        c2p_r, c2p_w = os.pipe()
        p2c_r, p2c_w = os.pipe()
        self.pid = os.fork()
        if self.pid == 0:
            try:
                os.close(c2p_r)
                os.close(p2c_w)
                _serve(p2c_r, c2p_w)
            finally:
                os._exit(0)
        os.close(c2p_w)
        os.close(p2c_r)
        self.rfd, self.wfd = c2p_r, p2c_w

    def call(self, op, timeout=60):
        _send(self.wfd, op)
        res = _recv(self.rfd, timeout)
        if res is None:
            self.close(kill=True)
            return ['no-response']
        if res[0] == 'harness-error':
            raise HarnessError('operation failed inside the server: %s' % res[1])
        return res

    def close(self, kill=False):
        if self.pid is None:
            return
        try:
            if kill:
                os.kill(self.pid, 9)
            else:
                _send(self.wfd, 'quit')
        except OSError:
            pass
        for fd in (self.rfd, self.wfd):
            try:
                os.close(fd)
            except OSError:
                pass
        try:
            os.waitpid(self.pid, 0)
        except OSError:
            pass
        self.pid = None


def fresh(op, timeout=60):
    """the operation in a fresh fork of the pristine state"""
    s = Server()
    try:
        return s.call(op, timeout)
    finally:
        s.close()


def check_pristine():
    m = RUN.mods()
    dirty = []
    if getattr(m['parse_user_data'], 'userDataParsers', None):
        dirty.append('userDataParsers')
    if getattr(m['src'], 'srcParsers', None) or getattr(m['src'], 'calloutParsers', None):
        dirty.append('srcParsers/calloutParsers')
    if getattr(m['comp_id'], 'componentIDs', None) or getattr(m['comp_id'], 'attemptedToParseCompIDs', None):
        dirty.append('componentIDs')
    if [n for n in PL.plugin_modules_loaded() if n.count('.') >= 2]:
        dirty.append('plug-in modules imported: %r' % PL.plugin_modules_loaded())
    if dirty:
        raise HarnessError('the harness process is not pristine any more: %s' % ', '.join(dirty))


class FixtureEnv:
    """fixture parser modules + registry for the whole shard; nothing is
    imported or decoded in this (pristine) process"""

    def __init__(self):
        self.fx = None

    def __enter__(self):
        RUN.mods()
        reg = getattr(RUN.R.src, 'registry', None)
        if reg is not None and hasattr(reg, 'pels') and not reg.pels:
            raise HarnessError('the fixture message registry was not picked up by the decoder')
        self.fx = PL.PluginFixtures(FIXTURE_SPEC)
        self.fx.__enter__()
        check_pristine()
        return self

    def __exit__(self, *a):
        self.fx.__exit__(*a)


# ---------------------------------------------------------------------------
# PEL pool
# ---------------------------------------------------------------------------

@st.composite
def drawer_section(draw):
    """user data of an I/O drawer (component 0x2C00): history log, ILOG whose entries sit on the few table patterns
    where the order of the shipped table decides the message, trace buffer with strings of the shipped file"""
    ver = draw(st.sampled_from([1, 1, 1, 2, 2, 9]))
    sub = draw(st.sampled_from([73, 73, 73, 73, 72, 84, 1]))
    if sub == 73:
        pairs = D_.order_sensitive_ptes('mex_pte.h', limit=2)
        data = b''
        for _ in range(draw(st.integers(1, 3))):
            v = draw(st.sampled_from(pairs))[draw(st.integers(0, 1))] if pairs else draw(S.uint(32))
            data += struct.pack('>HHI', draw(S.uint(16)), draw(S.uint(16)), v)
    elif sub == 84:
        from .c15 import shipped_strings
        strings = shipped_strings('mexStringFile' if ver != 2 else 'nimitzStringFile')
        pick = [strings[draw(st.integers(0, len(strings) - 1))] for _ in range(3)]
        data = D_.enc_trace_buffer(draw(D_.trace_buffer(pick, max_entries=3)))
    else:
        data = draw(S.payload(24))
    return {'k': 'UD', 'ver': ver, 'sub': sub, 'comp': 0x2C00, 'data': data}


@st.composite
def pool_pel(draw, creator=None, eid=None, code_hint=None):
    if creator is None:
        creator = draw(st.sampled_from([ord('O'), ord('O'), ord('O'), ord('B'), ord('B'), ord('K'), ord('M'), ord('M'),
                                         ord('H')]))
    kind = draw(st.sampled_from(['rich', 'rich', 'rich', 'damaged', 'plugin-heavy']))
    secs = []
    code = None
    served = creator in (ord('B'), ord('K'))        # creators with fixture SRC / call-out parsers
    if code_hint or kind == 'plugin-heavy' or draw(st.booleans()) or (served and draw(st.integers(0, 3)) != 0):
        if creator == ord('O'):
            # BMC PELs: ordinary and hostboot (BC) codes that share the component byte, with and without a parser
            code = draw(st.sampled_from(['BD8D2600', 'BC8A2601', 'BD8DE510', 'BC8AE510', 'BD8D2601', '11002600',
                                         'BD8D7700', 'BC8A7701', 'BD8DE510', 'BC8AE510', 'BD8D2600', 'BC8A2601']))
        else:
            code = draw(st.sampled_from(['BD8D2600', 'BD8D2601', 'BD8D2602', '11002600', 'BC8A8A01', 'B7001234',
                                         'BD00E510', 'BC8AE510']))
        if code_hint:
            code = code_hint
        cl = None
        if draw(st.booleans()) or served:
            cs = []
            for _ in range(draw(st.integers(1, 3 if served else 2))):
                c = draw(S.callout())
                if draw(st.booleans()) or served:
                    c['fru']['flags'] = (c['fru']['flags'] & 0xF0) | 0x02
                    c['fru']['pn'] = M.pad_text(draw(st.sampled_from(['BMC0001', 'PROC001', 'PROC003', 'PROC004', 'PROC005', 'FSI0042'])), 8)
                cs.append(c)
            cl = {'ssid': 0xC0, 'ssflags': 0, 'list': cs}
        secs.append(M.default_src(ascii=M.pad_text(code, 32, b' '), words=[draw(S.uint(32)) for _ in range(8)],
                                  wc=draw(st.sampled_from([9, 9, 9, 8, 6, 5, 2, 1])),
                                  flags=1 if cl else 0, callouts=cl))
    n = draw(st.integers(0, 4))
    if creator == ord('M'):
        # I/O drawer logs: served by the shipped m2c00 plug-in
        secs.append(draw(drawer_section()))
    for _ in range(n):
        k = draw(st.sampled_from(['ud-fix', 'ud-fix', 'ed-fix', 'lp', 'eh', 'mt', 'ud-builtin', 'raw', 'ss', 'm2c00']))
        if k == 'ud-fix':
            secs.append({'k': 'UD', 'ver': draw(S.byte), 'sub': draw(S.byte),
                         'comp': draw(st.sampled_from([0x1000, 0xABCD, 0x2222])), 'data': draw(S.payload(12))})
        elif k == 'ed-fix':
            secs.append({'k': 'ED', 'ver': draw(S.byte), 'sub': draw(S.byte), 'comp': draw(st.sampled_from([0x1000, 0xABCD])),
                         'creator': draw(st.sampled_from([ord('B'), ord('K'), ord('O'), ord('Z')])), 'r1': 0, 'r2': 0,
                         'data': draw(S.payload(12))})
        elif k == 'lp':
            secs.append(draw(S.lp_section(max_targets=5)))
        elif k == 'eh':
            secs.append(draw(S.eh_section()))
        elif k == 'mt':
            secs.append(draw(S.mt_section()))
        elif k == 'ud-builtin':
            secs.append({'k': 'UD', 'ver': 1, 'sub': draw(st.sampled_from([1, 3])), 'comp': 0x2000,
                         'data': draw(st.sampled_from([b'{"a": [1, 2]}', b'line one\nline two', b'[]']))})
        elif k == 'ss':
            secs.append(draw(S.src_section(primary=False, max_callouts=2)))
        elif k == 'm2c00':
            secs.append(draw(drawer_section()))
        else:
            secs.append(draw(S.raw_section(max_len=12)))
    pel = draw(S.pel_model(creator=creator, secs=st.just(secs), selectable=draw(st.integers(0, 3)) != 0))
    if eid is not None:
        pel['ph']['eid'] = eid          # the same log id again (a log updated in place, or one of another system)
    blob = M.encode(pel)
    if kind == 'damaged':
        cc = draw(corruption_case('quick'))
        cc['pel'] = pel
        cc['edits'] = [[p % max(len(blob), 1), v, m] for p, v, m in cc['edits']]
        if cc['splice']:
            cc['splice'][0] %= max(len(blob), 1)
        if cc['trunc'] is not None:
            cc['trunc'] %= max(len(blob), 1)
        blob = damage(cc)
    comps = sorted({s['comp'] for s in secs if s['k'] in ('UD', 'ED')})
    return {'blob': blob, 'creator': chr(creator), 'comps': comps, 'kind': kind, 'eid': pel['ph']['eid'], 'code': code,
            'fixture_free': chr(creator) in 'MH' and not any(x['k'] == 'ED' for x in secs)}


cfg_st = st.fixed_dictionaries({'allow_plugins': st.sampled_from([True, True, True, False]),
                                'every_pel': st.sampled_from([True, True, False])})


# ---------------------------------------------------------------------------
# the state machine
# ---------------------------------------------------------------------------

_collected = []         # per-process: summaries of finished histories
_shrink = {'first': None, 'best': None, 'budget': 40}


class HistoryMachine(RuleBasedStateMachine):
    pels = Bundle('pels')

    def __init__(self):
        super().__init__()
        self.sut = Server()
        self.history = []           # JSON-able ops, for the replay file
        self.decodes = []           # (pel index, outcome kind, creator, comps)
        self.pool = []
        self.first_result = {}
        self.real_checked = 0

    def teardown(self):
        self.sut.close()
        _collected.append(self.summary())

    def summary(self):
        nt = False
        seen = {}
        for i, (idx, kind, creator, comps) in enumerate(self.decodes):
            if idx in seen:
                between = self.decodes[seen[idx] + 1:i]
                if any(k != 'doc' for _, k, _, _ in between) or \
                        any(c != creator or cm != comps for _, _, c, cm in between):
                    nt = True
            seen.setdefault(idx, i)
        return {'steps': len(self.history), 'decodes': len(self.decodes), 'nontrivial': nt and len(self.decodes) >= 3,
                'digest': core.digest(self.history), 'kinds': [h[0] for h in self.history]}

    def step(self, op, label):
        self.history.append(core.to_jsonable(op))
        got = self.sut.call(op)
        want = fresh(op)
        if got != want:
            v = Violation(
                'C19.history', 'step %d (%s): after the preceding %d operations the outcome is %s; in a fresh process '
                'it is %s; %s' % (len(self.history), label, len(self.history) - 1, _brief(got), _brief(want),
                                  first_difference(got, want)),
                sig='C19.history:%s' % op[0])
            self.fail(v)
        return got

    def fail(self, v):
        v.history = list(self.history)
        size = len(core.canonical(v.history))
        if _shrink['best'] is None or size < _shrink['best'][0]:
            _shrink['best'] = (size, v)
        if _shrink['first'] is None:
            _shrink['first'] = time.monotonic()
        if time.monotonic() - _shrink['first'] > _shrink['budget']:
            return          # shrink budget used up: let Hypothesis finish
        raise v

    @rule(target=pels, p=pool_pel())
    def add_pel(self, p):
        self.pool.append(p)
        return len(self.pool) - 1

    @rule(target=pels, i=pels, data=st.data())
    def add_sibling(self, i, data):
        # another log of the same creator (same parser modules, tables and name files, other values)
        same_id = data.draw(st.booleans())
        # ... and, for reference codes, the counterpart that names the same component through the other route
        # (ordinary BD8D.... <-> hostboot BC8A....)
        hint = None
        c = self.pool[i].get('code')
        if c and c[:4] in ('BD8D', 'BC8A') and data.draw(st.booleans()):
            hint = ('BC8A' if c[:4] == 'BD8D' else 'BD8D') + c[4:]
        self.pool.append(data.draw(pool_pel(creator=ord(self.pool[i]['creator']), code_hint=hint,
                                            eid=self.pool[i].get('eid') if same_id else None)))
        return len(self.pool) - 1

    @rule(idx=st.lists(pels, min_size=1, max_size=3))
    def to_json(self, idx):
        # a log is stored under a name made of its entry id (as the BMC does), so a later log lands on the output
        # name of an earlier one exactly when the entry ids agree
        files = sorted({'log_%08X' % (self.pool[i].get('eid') or 0): self.pool[i]['blob'] for i in idx}.items())
        files = [list(f) for f in files]
        self.step(['json', files], 'peltool -j -o <out> over PELs %r' % idx)
        for i in idx:
            p = self.pool[i]
            self.decodes.append((i, 'doc', p['creator'], tuple(p['comps'])))

    @rule(i=pels, cfg=cfg_st)
    def decode(self, i, cfg):
        p = self.pool[i]
        got = self.step(['decode', p['blob'], cfg], 'decode PEL #%d' % i)
        self.decodes.append((i, got[0], p['creator'], tuple(p['comps'])))
        key = (i, json.dumps(cfg, sort_keys=True))
        if key in self.first_result and self.first_result[key] != got:
            self.fail(Violation('C19.repeat', 'decoding PEL #%d again gives %s, the first time it gave %s'
                                % (i, _brief(got), _brief(self.first_result[key])), sig='C19.repeat'))
        self.first_result.setdefault(key, got)

    @rule(i=pels)
    def headers(self, i):
        self.step(['headers', self.pool[i]['blob']], 'headers of PEL #%d' % i)

    @rule(idx=st.lists(pels, min_size=1, max_size=4), mode=st.sampled_from([
        ['-a'], ['-a', '-r'], ['-l'], ['-a', '-E'], ['-l', '-E', '-r'], ['-n', '-E'],
        ['-a', '-S', 'Recovered', 'Informational', 'Predictive', 'Unrecoverable', 'Critical', 'Diagnostic', 'Symptom'],
        ['-a', '-r', '-S', 'Informational', 'Recovered'], ['-a', '-N', '-H'], ['-n', '-S', 'Recovered', 'Critical']]))
    def directory(self, idx, mode):
        files = [['pel%02d_%d' % (k, i), self.pool[i]['blob']] for k, i in enumerate(idx)]
        got = self.step(['cli', mode, files], 'peltool %s over PELs %r' % (' '.join(mode), idx))
        # -a equals the per-file fresh decodes, in file-name order (reversed with -r)
        if mode[0] == '-a' and got[0] == 'cli' and got[1] == 0:
            cfg = {'every_pel': '-E' in mode}
            if '-S' in mode:
                gt = RUN.R.pel_values.severityGroupValues
                cfg['severities'] = [gt[g] for g in mode[mode.index('-S') + 1:]]
            if '-N' in mode:
                cfg['non_serviceable'] = True
            if '-H' in mode:
                cfg['hidden'] = True
            docs = []
            for name, blob in files:
                r = fresh(['decode', blob, cfg])
                if r[0] == 'doc':
                    docs.append(json.loads(r[1]))
            if '-r' in mode:
                docs.reverse()
            try:
                shown = json.loads(got[2])
            except ValueError:
                shown = None
            if shown != docs:
                self.fail(Violation('C19.directory', 'peltool %s shows %d documents that differ from the %d per-file '
                                    'decodes in fresh processes' % (' '.join(mode),
                                                                    len(shown) if shown is not None else -1,
                                                                    len(docs)), sig='C19.directory'))
        for i in idx:
            p = self.pool[i]
            self.decodes.append((i, 'doc', p['creator'], tuple(p['comps'])))


def _brief(r):
    if r and r[0] in ('doc', 'cli', 'headers', 'json'):
        s = r[-1]
        return '%s(%d chars, sha %s)' % (r[0], len(s), core.digest(s)[:8]) + \
            (' status %s' % r[1] if r[0] == 'cli' else '')
    return repr(r)


def first_difference(a, b):
    if a[0] != b[0]:
        return '%r vs %r' % (a[0], b[0])
    sa, sb = str(a[-1]), str(b[-1])
    k = 0
    while k < min(len(sa), len(sb)) and sa[k] == sb[k]:
        k += 1
    return 'first difference at char %d: %r vs %r' % (k, sa[max(0, k - 60):k + 60], sb[max(0, k - 60):k + 60])


# ---------------------------------------------------------------------------
# running the machine in shards
# ---------------------------------------------------------------------------

def _machine_shard(args):
    tier, base_seed, shard, n, steps = args
    res = FacetResult('histories')
    del _collected[:]
    try:
        with FixtureEnv():
            sd = core.derive_seed(base_seed, 'C19', 'histories', shard)
            machine = hypothesis.seed(sd)(HistoryMachine)
            stg = settings(max_examples=n, stateful_step_count=steps, database=None, deadline=None,
                           derandomize=False, report_multiple_bugs=False, print_blob=False,
                           phases=[Phase.generate, Phase.shrink], suppress_health_check=list(HealthCheck))
            _shrink.update(first=None, best=None, budget=40 if tier == 'quick' else 180)
            try:
                run_state_machine_as_test(machine, settings=stg)
            except Exception:
                if _shrink['best'] is None:
                    raise
            if _shrink['best'] is not None:
                v = _shrink['best'][1]
                res.violations.append({'sig': v.sig, 'oracle': v.oracle, 'message': v.message,
                                       'case': {'history': v.history}, 'seed': sd})
    except BaseException as e:
        if isinstance(e, (KeyboardInterrupt, SystemExit)):
            raise
        res.errors.append('shard %d of C19/histories: %s' % (
            shard, ''.join(traceback.format_exception(type(e), e, e.__traceback__))))
    for s in _collected:
        res.evaluations += 1
        res.executions += 2 * s['steps']
        res.labels['steps=%s' % ('0-3' if s['steps'] <= 3 else '4-8' if s['steps'] <= 8 else '9+')] += 1
        for k in set(s['kinds']):
            res.labels['has-' + k] += 1
        if s['nontrivial']:
            if s['digest'] not in res.nontrivial:
                res.nontrivial.add(s['digest'])
                if len(res.samples) < 3:
                    res.samples.append({'history_ops': s['kinds'], 'decode_steps': s['decodes']})
    return res


@PROP.custom('histories')
def histories(ctx):
    n = 560 if ctx.tier == 'quick' else 4800
    steps = 12 if ctx.tier == 'quick' else 30
    shards = 14 if ctx.tier == 'quick' else 16
    per = [n // shards + (1 if i < n % shards else 0) for i in range(shards)]
    jobs = [(ctx.tier, ctx.seed, i, per[i], steps) for i in range(shards) if per[i]]
    total = FacetResult('histories')
    with core._pool() as pool:
        for r in pool.map(_machine_shard, jobs, chunksize=1):
            total.merge(r)
    return total


def replay_histories(case):
    """re-executes a saved history without Hypothesis"""
    hist = core.from_jsonable(case['history'])
    with FixtureEnv():
        sut = Server()
        try:
            for i, op in enumerate(hist):
                got = sut.call(op)
                want = fresh(op)
                if got != want:
                    raise Violation('C19.history', 'step %d (%s): outcome after the preceding operations is %s; in a '
                                    'fresh process it is %s; %s' % (i + 1, op[0], _brief(got), _brief(want),
                                                                    first_difference(got, want)),
                                    sig='C19.history:%s' % op[0])
        finally:
            sut.close()


# ---------------------------------------------------------------------------
# cross-check of "fresh fork" against brand-new interpreters
# ---------------------------------------------------------------------------

def _real_shard(args):
    tier, base_seed, shard, n = args
    from .. import cli
    res = FacetResult('fresh-vs-new-interpreter')
    try:
        with FixtureEnv() as env:
            from hypothesis import given

            @hypothesis.seed(core.derive_seed(base_seed, 'C19', 'real', shard))
            @settings(max_examples=n, database=None, deadline=None, phases=[Phase.generate],
                      suppress_health_check=list(HealthCheck))
            @given(pool_pel())
            def t(p):
                d = tempfile.mkdtemp(prefix='c19r')
                try:
                    path = os.path.join(d, 'x.pel')
                    with open(path, 'wb') as f:
                        f.write(p['blob'])
                    r = cli.real(['-f', path, '-E'], registry_fixture=True)
                    want = fresh(['decode', p['blob'], {'every_pel': True, 'allow_plugins': True}])
                    res.evaluations += 1
                    res.executions += 2
                    # the new interpreter has no fixture parser modules: compare only PELs no fixture serves
                    if want[0] == 'doc' and p['fixture_free']:
                        if r.out.rstrip('\n') != want[1].rstrip('\n'):
                            raise Violation('C19.fresh', 'a brand-new interpreter prints something else than a fresh '
                                            'fork decodes: %s' % first_difference(['doc', r.out], want),
                                            sig='C19.fresh')
                        res.nontrivial.add(core.digest(p['blob']))
                finally:
                    shutil.rmtree(d, ignore_errors=True)
            try:
                t()
            except Violation as v:
                res.violations.append({'sig': v.sig, 'oracle': v.oracle, 'message': v.message,
                                       'case': {'history': []}, 'seed': 0})
    except BaseException as e:
        if isinstance(e, (KeyboardInterrupt, SystemExit)):
            raise
        res.errors.append('shard %d of C19/real: %s' % (
            shard, ''.join(traceback.format_exception(type(e), e, e.__traceback__))))
    return res


@PROP.custom('fresh-vs-new-interpreter')
def fresh_vs_new_interpreter(ctx):
    n = 64 if ctx.tier == "quick" else 800
    shards = 8
    jobs = [(ctx.tier, ctx.seed, i, n // shards) for i in range(shards)]
    total = FacetResult('fresh-vs-new-interpreter')
    with core._pool() as pool:
        for r in pool.map(_real_shard, jobs, chunksize=1):
            total.merge(r)
    return total


def replay_fresh_vs_new_interpreter(case):
    return None
