"""C16 - history logs show a full hex dump and exactly the non-zero fields."""
from hypothesis import strategies as st

from .. import drawer as D
from ..core import Property, Violation
from ..run import guard
from ..util import parse_default_dump

PROP = Property(
    'C16', 'exploration',
    rule=('Generated: synthetic field tables (0..60 fields of width 1 or 2 rendered as a header file in the '
          'documented grammar, with style variations) or one of the two shipped tables (read by an independent '
          'tokenizer), and data of every length from 0 past the full record with values boosted at 0/1/0xFF. '
          'Oracle: the dump block parses back to the data with an independent reader, the field lines equal a '
          'reference decoder written from the statement. Non-trivial = data shorter than the full record but '
          'non-empty, or a non-zero field located after a 2-byte field.'),
    assumptions=['header files follow the documented grammar (struct mex_hlog_field mex_hlog_fields[...] = '
                 '{ {size, "name"}, ... };)', 'heading texts are not compared, only the structure'],
    design_ref='4/C16')


def hlog():
    import io_drawer.hlog as h
    return h


def check_output(lines, fields, data):
    if not isinstance(lines, list) or not all(isinstance(l, str) for l in lines):
        raise Violation('C16.shape', 'output is not a list of lines')
    try:
        blank = lines.index('')
    except ValueError:
        raise Violation('C16.shape', 'no blank line separates the dump from the field list: %r' % lines[:6])
    if blank < 2:
        raise Violation('C16.shape', 'dump heading missing: %r' % lines[:4])
    dump = lines[2:blank]
    got = parse_default_dump(dump, 'history log dump') if dump else b''
    if got != data:
        raise Violation('C16.dump', 'hex dump carries %s for data %s' % (got.hex(), data.hex()), sig='C16.dump')
    rest = lines[blank + 1:]
    if len(rest) < 2:
        raise Violation('C16.shape', 'field list heading missing: %r' % rest)
    want = D.ref_hlog_field_lines(fields, data)
    if rest[2:] != want:
        raise Violation('C16.fields', 'field lines %r, expected %r (fields %r, data %s)'
                        % (rest[2:][:8], want[:8], fields[:8], data.hex()[:80]), sig='C16.fields')


def classify(fields, data, note):
    total = sum(s for s, _ in fields)
    short = 0 < len(data) < total
    after2 = False
    pos = 0
    seen2 = False
    for s, _ in fields:
        if pos + s > len(data):
            break
        v = int.from_bytes(data[pos:pos + s], 'big')
        if seen2 and v:
            after2 = True
        if s == 2:
            seen2 = True
        pos += s
    note.nontrivial = bool(short or after2)
    note.label('short' if short else ('full' if len(data) >= total else 'empty'))


val_byte = st.one_of(st.integers(0, 255), st.sampled_from([0, 0, 0, 1, 0xFF]))


@st.composite
def synthetic_case(draw):
    fields = draw(D.hlog_fields())
    total = sum(s for s, _ in fields)
    n = draw(st.one_of(st.integers(0, total + 8), st.sampled_from([0, total, max(total - 1, 0), total + 1])))
    data = bytes(draw(st.lists(val_byte, min_size=n, max_size=n)))
    style = draw(D.style_st)
    with_pte = draw(st.booleans())
    return {'fields': [list(f) for f in fields], 'data': data, 'style': style, 'with_pte': with_pte}


@PROP.given('synthetic-tables', lambda tier: synthetic_case(), quick=3000, thorough=60000, shards_quick=8)
def synthetic(case, note):
    fields = [tuple(f) for f in case['fields']]
    pte = [{'pattern': '0101****', 'fmt': 'Fan presence 0x%02X', 'params': [4], 'file': 'fan.cpp', 'line': 5}] \
        if case['with_pte'] else None
    text = D.render_header_file(pte, fields, case['style'])
    with D.TempFile(text, '.h') as path:
        got_fields = guard('C16.table', hlog().get_hlog_fields, path)
        if [(f.size, f.name) for f in got_fields] != fields:
            raise Violation('C16.grammar', 'field table read as %r, file declares %r'
                            % ([(f.size, f.name) for f in got_fields][:6], fields[:6]), sig='C16.grammar')
        lines = guard('C16.decode', hlog().parse_hlog_data, D.view(case['data']), path)
    check_output(lines, fields, case['data'])
    classify(fields, case['data'], note)


_shipped = {}


def shipped_fields(name):
    if name not in _shipped:
        _shipped[name] = D.read_shipped_hlog_fields(D.shipped(name))
        if len(_shipped[name]) < 10:
            raise Violation('C16.grammar', 'independent tokenizer finds only %d fields in %s'
                            % (len(_shipped[name]), name))
    return _shipped[name]


@st.composite
def shipped_case(draw):
    name = draw(st.sampled_from(['mex_pte.h', 'nimitz_pte.h']))
    n = draw(st.one_of(st.integers(0, 70), st.sampled_from([0, 1, 2, 40, 46, 47, 48, 49, 50, 60])))
    data = bytes(draw(st.lists(val_byte, min_size=n, max_size=n)))
    if draw(st.integers(0, 9)) == 0:
        data = bytes(n)                      # an all-zero log still gets its dump and headings
    return {'file': name, 'data': data}


@PROP.given('shipped-tables', lambda tier: shipped_case(), quick=600, thorough=30000, shards_quick=8)
def shipped(case, note):
    fields = shipped_fields(case['file'])
    path = D.shipped(case['file'])
    got_fields = guard('C16.table', hlog().get_hlog_fields, path)
    if [(f.size, f.name) for f in got_fields] != fields:
        raise Violation('C16.grammar', 'shipped table %s read as %d fields, an independent tokenizer finds %d'
                        % (case['file'], len(got_fields), len(fields)), sig='C16.grammar.shipped')
    lines = guard('C16.decode', hlog().parse_hlog_data, D.view(case['data']), path)
    check_output(lines, fields, case['data'])
    if case['data'] and case.get('file'):
        # the same bytes as an I/O-drawer history-log section (sub-type 72) of an error log
        import json
        import udparsers.m2c00.m2c00 as plug
        ver = {'mex_pte.h': 1, 'nimitz_pte.h': 2}[case['file']]
        out = json.loads(guard('C16.plugin', plug.parseUDToJson, 72, ver, D.view(case['data'])))
        note.extra_eval += 1
        if out.get('History Log') != lines:
            raise Violation('C16.plugin', 'as a history-log section of a PEL (version %d) the %d bytes %s are shown as %r, '
                            'the history-log decoder gives %d lines' % (ver, len(case['data']), case['data'].hex()[:60],
                                                                       str(out)[:200], len(lines)), sig='C16.plugin')
    classify(fields, case['data'], note)
