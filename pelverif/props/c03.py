"""C03 - SRC sections display the encoded words, flags and every callout faithfully."""
import json
import os
import re
import shutil
import tempfile

from hypothesis import strategies as st

from .. import expect as X
from .. import model as M
from .. import strategies as S
from ..core import Property, Violation
from ..run import R, must_decode, make_config, need, main_inprocess
from ..util import Fill
from .c01 import expected_names
from .c02 import set_compnames

PROP = Property(
    'C03', 'exploration',
    rule=('Generated: primary/secondary SRC sections (BD / 11 / BC / other / free-text reference codes, word count '
          '1..9, any flag byte, full-width hex words with boundary boosting, 0..4 callouts each with any of the 16 '
          'FRU-identity flag combinations, any component-type nibble, optional PCE and MRU (0..15 ids), location '
          'codes 0..80 chars) inside minimal and rich PELs, with a generated message registry (entry present / '
          'absent / under another SRC type, 0..4 %N arguments from SRCWord2..9). Enumerated: 16 FRU flag combos x '
          '{no PCE, PCE} x MRU counts 0..15 x 2 positions. Non-trivial = >= 2 callouts with differing shapes, or a '
          'callout with an MRU followed by another callout, or a FRU identity without part number, or a registry '
          'message with >= 2 arguments from distinct words.'),
    assumptions=['registry content is injected by replacing src.registry.pels in the harness process',
                 'registry messages use %1..%n in ascending order without braces and n <= number of argument '
                 'sources (positional and indexed filling agree there)',
                 'callouts always carry a FRU identity; PCE names are non-empty; callout flags are legal',
                 'name tables and maintenance-procedure texts are taken from the repo'],
    design_ref='4/C03')


CALLOUT_KEYS = {'FRU Type', 'Priority', 'Location Code', 'Part Number', 'Procedure', 'Description', 'CCIN',
                'Serial Number', 'PCE MTMS', 'PCE Name', 'MRU Id'}


def tf(b):
    return 'True' if b else 'False'


def expected_message(src, registry):
    """(message or None) per the registry rule"""
    ascii_ = src['ascii'].decode('ascii')
    stype, code = ascii_[0:2], '0x' + ascii_[4:8]
    if stype not in ('BD', '11', 'BC'):
        return None
    for e in registry:
        s = e['SRC']
        if 'ReasonCode' not in s:
            continue
        if s.get('Type', 'BD') != stype:
            continue
        if code not in s['ReasonCode']:
            continue
        msg = e['Documentation']['Message']
        srcs = e['Documentation'].get('MessageArgSources')
        if srcs is not None:
            vals = [hex(src['words'][int(a[-1]) - 2]) for a in srcs]
            for i, v in enumerate(vals):
                msg = msg.replace('%%%d' % (i + 1), v, 1)
        return msg or None
    return None


def expected_callout(c, plugins, creator_chr):
    V = R.pel_values
    out = {}
    fru = c['fru']
    f = fru['flags']
    out['FRU Type'] = V.failingComponentType.get(f & 0xF0, 'Invalid')
    out['Priority'] = V.calloutPriorityValues.get(c['prio'], 'Invalid')
    loc = X.text_of(c['loc'])
    if loc:
        out['Location Code'] = loc
    if f & 0x08:
        out['Part Number'] = X.text_of(fru['pn'])
    if f & 0x02:
        out['Procedure'] = X.text_of(fru['pn'])
        if plugins and creator_chr.lower() == 'o':
            import calloutparsers.ocallouts.ocallouts as oc
            d = oc.getMaintProcDesc(out['Procedure'])
            if d:
                out['Description'] = json.loads(d)
    if f & 0x04:
        out['CCIN'] = X.text_of(fru['ccin'])
    if f & 0x01:
        out['Serial Number'] = X.text_of(fru['sn'])
    if c.get('pce') is not None:
        mtm, sn, name = X.text_of(c['pce']['mtm']), X.text_of(c['pce']['sn']), X.text_of(c['pce']['name'])
        if mtm:
            out['PCE MTMS'] = mtm + '_' + sn
        if name:
            out['PCE Name'] = name
    if c.get('mru') is not None:
        out['MRU Id'] = ','.join('%08X' % mid for _, mid in c['mru']['list'])
    return out


def check_src(name, entry, s, creator_chr, compnames, registry, plugins):
    P = 'C03'
    X.check_common(P, name, entry, s)
    X.eq(P, name, 'Created by', need(entry, 'Created by', name), X.display_comp(s['comp'], creator_chr, compnames))
    X.eq_num(P, name, 'SRC Version', need(entry, 'SRC Version', name), s['sver'], 16)
    X.eq_num(P, name, 'SRC Format', need(entry, 'SRC Format', name), s['words'][0] & 0xFF, 16)
    X.eq(P, name, 'Virtual Progress SRC', need(entry, 'Virtual Progress SRC', name), tf(s['flags'] & 0x80))
    X.eq(P, name, 'I5/OS Service Event Bit', need(entry, 'I5/OS Service Event Bit', name), tf(s['flags'] & 0x10))
    X.eq(P, name, 'Hypervisor Dump Initiated', need(entry, 'Hypervisor Dump Initiated', name), tf(s['flags'] & 0x04))
    ascii_ = s['ascii'].decode('ascii')
    stype = ascii_[0:2]
    w = s['words']
    if stype in ('BD', '11'):
        X.eq_num(P, name, 'Backplane CCIN', need(entry, 'Backplane CCIN', name), w[1] >> 16, 16)
        X.eq(P, name, 'Terminate FW Error', need(entry, 'Terminate FW Error', name), tf(w[3] & 0x20000000))
    if stype in ('BD', '11', 'BC'):
        X.eq(P, name, 'Deconfigured', need(entry, 'Deconfigured', name), tf(w[3] & 0x02000000))
        X.eq(P, name, 'Guarded', need(entry, 'Guarded', name), tf(w[3] & 0x01000000))
    X.eq_num(P, name, 'Valid Word Count', need(entry, 'Valid Word Count', name), s['wc'], 16)
    X.eq(P, name, 'Reference Code', need(entry, 'Reference Code', name), ascii_.strip(' '))
    for k in range(2, 10):
        key = 'Hex Word %d' % k
        if k <= s['wc']:
            X.eq_num(P, name, key, need(entry, key, name), w[k - 2], 16)
        elif key in entry:
            X.eq_num(P, name, key, entry[key], w[k - 2], 16)
    # registry message
    want_msg = expected_message(s, registry)
    if want_msg is None:
        if 'Error Details' in entry and stype not in ('BD', '11', 'BC'):
            raise Violation('C03.message', '%s: Error Details shown for SRC type %r' % (name, stype), sig='C03.message')
        if 'Error Details' in entry and stype in ('BD', '11', 'BC'):
            raise Violation('C03.message', '%s: Error Details %r shown although no registry entry matches %s/%s'
                            % (name, entry['Error Details'], stype, ascii_[4:8]), sig='C03.message')
    else:
        det = need(entry, 'Error Details', name)
        X.eq(P, name, 'Error Details/Message', need(det, 'Message', name + ' / Error Details'), want_msg)
    # callouts
    if s['callouts'] is None:
        if 'Callout Section' in entry:
            raise Violation('C03.callouts', '%s: a callout section is shown but none is encoded' % name,
                            sig='C03.callouts.spurious')
    else:
        cs = need(entry, 'Callout Section', name)
        lst = need(cs, 'Callouts', name + ' / Callout Section')
        want = [expected_callout(c, plugins, creator_chr) for c in s['callouts']['list']]
        cnt = need(cs, 'Callout Count', name + ' / Callout Section')
        if cnt != len(want) or not isinstance(lst, list) or len(lst) != len(want):
            raise Violation('C03.callouts', '%s: Callout Count %r, %s callouts listed, %d encoded'
                            % (name, cnt, len(lst) if isinstance(lst, list) else '?', len(want)),
                            sig='C03.callouts.count')
        for i, (g, wnt) in enumerate(zip(lst, want)):
            # every expected key with its value, and none of the known callout keys that is not due;
            # keys outside this vocabulary (additional information) are tolerated
            keys = sorted((set(g) & CALLOUT_KEYS) | set(wnt))
            bad = [k for k in keys if g.get(k) != wnt.get(k)]
            if bad:
                raise Violation('C03.callouts', '%s: callout %d of %d shows %r, encoded %r (differs in %r)'
                                % (name, i, len(want), g, wnt, bad), sig='C03.callouts:%s' % bad[0])


# ---------------------------------------------------------------------------
# generators
# ---------------------------------------------------------------------------

@st.composite
def registry_for(draw, srcs):
    """a message registry aimed at the reason codes of the given SRCs"""
    entries = []
    for s in srcs:
        ascii_ = s['ascii'].decode('ascii')
        stype, code = ascii_[0:2], ascii_[4:8]
        kind = draw(st.sampled_from(['hit', 'hit', 'other-type', 'other-code', 'none']))
        if kind == 'none':
            continue
        etype = stype if stype in ('BD', '11', 'BC') else 'BD'
        if kind == 'other-type':
            etype = {'BD': '11', '11': 'BC', 'BC': 'BD'}[etype]
        rc = '0x' + code
        if kind == 'other-code':
            rc = '0x' + ('%04X' % ((int(code, 16) + 1) & 0xFFFF) if re.fullmatch('[0-9A-F]{4}', code) else 'ZZZZ')
        nargs = draw(st.integers(0, 4))
        nsrc = draw(st.integers(nargs, 4)) if nargs else draw(st.sampled_from([0, 0, 2]))
        sources = ['SRCWord%d' % draw(st.integers(2, 9)) for _ in range(nsrc)]
        parts = [draw(st.sampled_from(['Power fault', 'on', 'chip', 'rc =', 'code:', 'x"y', 'a: b']))]
        for k in range(nargs):
            parts.append('%%%d' % (k + 1))
            parts.append(draw(st.sampled_from(['and', 'at', '', 'value'])))
        doc = {'Message': ' '.join(p for p in parts if p != '') or 'm'}
        if nsrc or draw(st.booleans()):
            doc['MessageArgSources'] = sources
        srcd = {'ReasonCode': rc}
        if etype != 'BD' or draw(st.booleans()):
            srcd['Type'] = etype
        if draw(st.integers(0, 3)) == 0:
            srcd['Words6To9'] = {'6': {'Description': 'word six', 'AdditionalDataPropSource': 'PROP6'},
                                 '8': {'AdditionalDataPropSource': 'PROP8'}}
        entries.append({'Name': 'xyz.openbmc_project.Error%d' % len(entries), 'SRC': srcd, 'Documentation': doc})
    if draw(st.booleans()):
        entries.insert(draw(st.integers(0, len(entries))),
                       {'Name': 'no.reason.code', 'SRC': {'Type': 'BD'}, 'Documentation': {'Message': 'never'}})
    return entries


@st.composite
def case_strategy(draw, tier):
    rich = draw(st.integers(0, 3)) == 0
    creator = draw(st.one_of(st.sampled_from([ord('O'), ord('O'), ord('B'), ord('H')]), S.creator_byte))
    n_ss = draw(st.integers(0, 2))
    secs = []
    if draw(st.integers(0, 4)) != 0:
        secs.append(draw(S.src_section(primary=True)))
    for _ in range(n_ss):
        secs.append(draw(S.src_section(primary=False)))
    if rich:
        extra = draw(st.lists(st.one_of(S.ud_section(max_len=16), S.mt_section(), S.raw_section(max_len=16)),
                              max_size=3))
        for e in extra:
            secs.insert(draw(st.integers(0, len(secs))), e)
    pel = draw(S.pel_model(creator=creator, secs=st.just(secs)))
    srcs = [s for s in secs if s['k'] == 'SRC']
    return {'pel': pel, 'registry': draw(registry_for(srcs)), 'plugins': draw(st.booleans()),
            'summary': draw(st.integers(0, 5)) == 0}


def can_inject_registry():
    reg = getattr(R.src, 'registry', None)
    return reg is not None and isinstance(getattr(reg, 'pels', None), list)


def set_registry(entries):
    if not can_inject_registry():
        return None
    reg = R.src.registry
    old = reg.pels
    reg.pels = entries
    return old


def shape(c):
    return (c['fru']['flags'] & 0x0F, c.get('pce') is not None, c.get('mru') is not None, bool(c['loc']))


def classify(pel, registry, note):
    nt = False
    for s in pel['secs']:
        if s['k'] != 'SRC':
            continue
        note.label('src-type=' + (s['ascii'][:2].decode() if s['ascii'][:2] in (b'BD', b'11', b'BC') else 'other'))
        if s['callouts'] is not None:
            cl = s['callouts']['list']
            note.label('callouts=%s' % (len(cl) if len(cl) < 3 else '3+'))
            if len(cl) >= 2 and len({shape(c) for c in cl}) >= 2:
                nt = True
                note.label('differing-shapes')
            if any(c.get('mru') is not None for c in cl[:-1]):
                nt = True
                note.label('mru-not-last')
            if any(not (c['fru']['flags'] & 0x08) for c in cl):
                nt = True
        m = expected_message(s, registry)
        if m is not None:
            note.label('registry-hit')
    for e in registry:
        a = e['Documentation'].get('MessageArgSources') or []
        if len(set(a)) >= 2 and '%2' in e['Documentation']['Message']:
            nt = True
    note.nontrivial = nt


def check_pel(pel, registry, plugins, note, summary=False):
    if not can_inject_registry():
        registry = list(getattr(getattr(R.src, 'registry', None), 'pels', None) or [])
        note.label('no-registry-injection')
    old = set_registry(registry)
    set_compnames(None)
    try:
        data = M.encode(pel)
        o = must_decode(data, make_config(allow_plugins=plugins, every_pel=True), oracle='C03.decode')
        if o.doc is None:
            raise Violation('C03.json', 'output is not JSON (see C06)')
        names = expected_names(pel)
        creator = chr(pel['ph']['creator'])
        for s, n in zip(pel['secs'], names[2:]):
            if s['k'] == 'SRC':
                check_src(n, need(o.doc, n), s, creator, None, registry, plugins)
        if summary:
            check_summary(pel, data, registry, plugins, note)
    finally:
        if old is not None:
            set_registry(old)


def check_summary(pel, data, registry, plugins, note):
    """the -l summary's SRC / Message equal the same values"""
    d = tempfile.mkdtemp(prefix='c03')
    try:
        with open(os.path.join(d, 'pel0'), 'wb') as f:
            f.write(data)
        argv = ['-p', d, '-l', '-E'] + ([] if plugins else ['-P'])
        status, out, err = main_inprocess(argv)
        note.extra_eval += 1
        if status != 0:
            raise Violation('C03.summary', 'peltool -l failed: %s' % err[:300])
        try:
            doc = json.loads(out)
        except ValueError:
            raise Violation('C03.summary', 'peltool -l printed invalid JSON (see C06)')
        if len(doc) != 1:
            raise Violation('C03.summary', 'peltool -l -E lists %d entries for one PEL: %s' % (len(doc), err[:200]))
        entry = list(doc.values())[0]
        ps = [s for s in pel['secs'] if s['k'] == 'SRC' and s['id'] == 'PS']
        if ps:
            X.eq('C03', 'summary', 'SRC', need(entry, 'SRC', 'summary'), ps[0]['ascii'].decode('ascii').strip(' '))
            m = expected_message(ps[0], registry)
            if m is not None:
                X.eq('C03', 'summary', 'Message', need(entry, 'Message', 'summary'), m)
            elif 'Message' in entry:
                raise Violation('C03.summary', 'summary shows Message %r without a registry entry' % entry['Message'])
        elif 'SRC' in entry:
            raise Violation('C03.summary', 'summary shows SRC %r for a PEL without primary SRC' % entry['SRC'])
        note.label('summary-checked')
    finally:
        shutil.rmtree(d, ignore_errors=True)


@PROP.given('src-fields', lambda tier: case_strategy(tier), quick=3000, thorough=60000, shards_quick=8)
def src_fields(case, note):
    check_pel(case['pel'], case['registry'], case['plugins'], note, case['summary'])
    classify(case['pel'], case['registry'], note)


# ---------------------------------------------------------------------------
# callout shape sweep
# ---------------------------------------------------------------------------

def sweep_cases(tier, seed):
    return [[fl, pce, nm, pos, seed] for fl in range(16) for pce in (0, 1) for nm in range(-1, 16) for pos in (0, 1)]


@PROP.enum('callout-shapes', sweep_cases, chunk=64, exhaustive=True)
def callout_shapes(case, note):
    fl, pce, nm, pos, seed = case
    f = Fill('C03sweep', fl, pce, nm, pos, seed)

    def mk(flags_low, with_pce, n_mru):
        c = {'flags': 0x28, 'prio': f.choice([0x48, 0x4D, 0x41, 0x42, 0x43, 0x4C, 0x00]),
             'loc': M.pad_text(f.text(f.int(0, 11)), 12) if f.int(0, 1) else b'',
             'fru': {'flags': f.choice(S.FRU_TYPES) | flags_low, 'pn': M.pad_text(f.text(f.int(1, 8)), 8),
                     'ccin': M.pad_text(f.text(f.int(0, 4)), 4), 'sn': M.pad_text(f.text(f.int(0, 12)), 12)},
             'pce': None, 'mru': None}
        if with_pce:
            c['pce'] = {'flags': f.int(0, 255), 'mtm': M.pad_text(f.text(f.int(0, 8)), 8),
                        'sn': M.pad_text(f.text(f.int(0, 12)), 12), 'name': M.pad_text(f.text(f.int(1, 8)), 8)}
        if n_mru >= 0:
            c['mru'] = {'fhi': f.int(0, 15), 'r4': f.int(0, 0xFFFFFFFF),
                        'list': [[f.int(0, 0xFFFFFFFF), f.int(0, 0xFFFFFFFF)] for _ in range(n_mru)]}
            c['flags'] |= 0x04
        return c
    target = mk(fl, pce, nm)
    other = mk(f.int(0, 15), f.int(0, 1), f.int(-1, 3))
    cl = [target, other] if pos == 0 else [other, target]
    src = M.default_src(flags=1, words=[f.int(0, 0xFFFFFFFF) for _ in range(8)], wc=f.int(1, 9),
                        callouts={'ssid': 0xC0, 'ssflags': 0, 'list': cl})
    src['ascii'] = M.pad_text(f.choice(['BD', '11', 'BC', 'B7']) + f.text(6, '0123456789ABCDEF'), 32, b' ')
    follow = {'k': 'UD', 'ver': 1, 'sub': 1, 'comp': 0x1234, 'data': f.bytes(9)}
    pel = M.minimal_pel([src, follow], ph=M.default_ph(creator=ord(f.choice('OBHx'))))
    check_pel(pel, [], bool(f.int(0, 1)), note)
    note.nontrivial = True
    note.sample = {'fru_flags': fl, 'pce': pce, 'mru_count': nm, 'position': pos, 'pel_hex': M.encode(pel)}
