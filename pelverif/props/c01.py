"""C01 - every PEL section is decoded once, in order, from exactly its own bytes.

Oracle: round trip through the independent encoder (pelverif.model):
 (a) the top-level names of the document are PH, UH, then one name per
     optional section, in order, numbered 0,1,.. per repeated name;
 (b) the stream cursor at the start of every section equals the offset the
     encoder put it at, and the final cursor equals len(bytes);
 (c) context independence: every entry equals the entry obtained when the
     same section is the only optional section of the PEL;
 (d) sections rendered as a hex dump carry exactly their payload.
"""
from hypothesis import strategies as st

from .. import model as M
from .. import strategies as S
from ..core import Property, Violation
from ..run import R, decode, must_decode, make_config, need
from ..util import parse_default_dump, Fill

PROP = Property(
    'C01', 'exploration',
    rule=('Generated: PEL models (PH, UH, 0..N optional sections of every kind, any creator, '
          'constructed not filtered) encoded by an independent encoder and decoded by parsePEL; '
          'enumerated: every ordered pair of 20 section kinds x 3 size classes each. '
          'Non-trivial = at least 2 optional sections AND (a content-driven section - EH with '
          'symptom id, LP, SRC with callouts - that is not last, or a repeated section name). '
          'Distinct = distinct canonical JSON of the model.'),
    assumptions=[
        'the independent encoder in pelverif/model.py reflects the PEL layout',
        'section-name table (pel_values.sectionNames) is taken from the repo by design',
        'payloads have length >= 1 (the property quantifies from 1)',
    ],
    design_ref='4/C01')


def section_names():
    return R.pel_values.sectionNames


def expected_names(pel):
    names = section_names()
    base = []
    for s in pel['secs']:
        i = M.sec_id(s)
        key = chr((i >> 8) & 0xFF) + chr(i & 0xFF)
        base.append(names.get(key, 'Unknown'))
    total = {}
    for n in base:
        total[n] = total.get(n, 0) + 1
    seen = {}
    out = [names.get('PH', 'Private Header'), names.get('UH', 'User Header')]
    for n in base:
        if total[n] == 1:
            out.append(n)
        else:
            out.append('%s %d' % (n, seen.get(n, 0)))
            seen[n] = seen.get(n, 0) + 1
    return out


def content_driven(s):
    return (s['k'] == 'LP' or (s['k'] == 'EH' and s['symptom'])
            or (s['k'] == 'SRC' and s['callouts'] is not None))


def check_model(pel, plugins, note):
    data = M.encode(pel)
    offs = M.offsets(pel)
    cfg = make_config(allow_plugins=bool(plugins))
    o = must_decode(data, cfg, oracle='C01.decode', record_starts=True)
    if o.doc is None:
        raise Violation('C01.json', 'output is not JSON (see C06): %r' % o.text[:200])
    want = expected_names(pel)
    got = list(o.doc)
    if got != want:
        raise Violation('C01.names', 'top-level entries %r, expected %r' % (got, want),
                        sig='C01.names')
    # (b) cursor
    if not o.starts:
        # the harness-side recorder on peltool.parseHeader saw nothing (the decoder no longer goes through
        # it): the per-section offsets cannot be observed, the final cursor below still can
        note.label('no-offset-recorder')
    elif o.starts != offs[:-1]:
        raise Violation('C01.offsets', 'sections were read at offsets %r, they start at %r'
                        % (o.starts, offs[:-1]), sig='C01.offsets')
    if o.index != len(data):
        raise Violation('C01.offsets', 'decoding ended at offset %d of %d' % (o.index, len(data)),
                        sig='C01.end')
    # (c) context independence
    secs = pel['secs']
    if len(secs) >= 2:
        for i, s in enumerate(secs):
            solo = {'ph': pel['ph'], 'uh': pel['uh'], 'secs': [s]}
            so = must_decode(M.encode(solo), cfg, oracle='C01.solo')
            note.extra_eval += 1
            if so.doc is None:
                continue
            solo_keys = list(so.doc)
            if len(solo_keys) != 3:
                raise Violation('C01.names', 'single-section PEL has entries %r' % solo_keys,
                                sig='C01.names')
            if o.doc[want[2 + i]] != so.doc[solo_keys[2]]:
                raise Violation(
                    'C01.context',
                    'section %d (%s) decodes differently inside the PEL than alone: %r vs %r'
                    % (i, want[2 + i], o.doc[want[2 + i]], so.doc[solo_keys[2]]),
                    sig='C01.context:%s' % s['k'])
    # (d) hex-dump sections carry exactly their payload
    for i, s in enumerate(secs):
        entry = o.doc[want[2 + i]]
        if s['k'] == 'RAW':
            got_b = parse_default_dump(need(entry, 'Data', want[2 + i]), want[2 + i])
            if got_b != s['data']:
                raise Violation('C01.payload', '%s dump carries %s, section holds %s'
                                % (want[2 + i], got_b.hex(), s['data'].hex()), sig='C01.payload')
        elif s['k'] in ('UD', 'ED') and not plugins:
            creator = chr(pel['ph']['creator']) if s['k'] == 'UD' else chr(s['creator'])
            if not (creator == 'O' and s['comp'] == 0x2000):
                got_b = parse_default_dump(need(entry, 'Data', want[2 + i]), want[2 + i])
                if got_b != s['data']:
                    raise Violation('C01.payload', '%s dump carries %s, section holds %s'
                                    % (want[2 + i], got_b.hex(), s['data'].hex()), sig='C01.payload')
    # classification
    n = len(secs)
    note.label('sections=%s' % (n if n < 4 else '4-8' if n <= 8 else '9+'))
    rep = len(set(want)) and any(w[-1].isdigit() and ' ' in w for w in want[2:])
    cd_not_last = any(content_driven(s) for s in secs[:-1])
    if rep:
        note.label('repeated-name')
    if cd_not_last:
        note.label('content-driven-not-last')
    if any(s['k'] == 'RAW' and s['id'] in (0x4944, 0x5045, 0x4D52) for s in secs):
        note.label('collision-id-section')
    if plugins:
        note.label('plugins-on')
    note.nontrivial = n >= 2 and (rep or cd_not_last)


def model_strategy(tier):
    mx = 12 if tier == 'quick' else 40
    return st.tuples(S.pel_model(max_sections=mx, big=(tier != 'quick')), st.booleans())


@PROP.given('roundtrip', model_strategy, quick=1200, thorough=48000, shards_quick=8)
def roundtrip(case, note):
    pel, plugins = case
    check_model(pel, plugins, note)


# ---------------------------------------------------------------------------
# many sections (up to the 255 limit)
# ---------------------------------------------------------------------------

def many_strategy(tier):
    small = st.one_of(S.raw_section(max_len=8), S.ud_section(max_len=8), S.mt_section(),
                      S.lp_section(max_targets=3), S.ed_section(max_len=8),
                      S.src_section(primary=False, max_callouts=1))
    n = st.one_of(st.integers(100, 253), st.sampled_from([253, 252, 200]))
    return st.tuples(
        S.pel_model(secs=n.flatmap(lambda k: st.lists(small, min_size=k, max_size=k))),
        st.booleans())


@PROP.given('many-sections', many_strategy, quick=12, thorough=400, shards_quick=6)
def many_sections(case, note):
    pel, plugins = case
    check_model(pel, plugins, note)


# ---------------------------------------------------------------------------
# all ordered pairs of section kinds x size classes
# ---------------------------------------------------------------------------

KINDS = (['PS', 'SS', 'EH', 'MT', 'LP', 'UD', 'ED'] + S.HEXDUMP_NAMED + ['ZZ'] + S.COLLISION_IDS)


def build_section(kind, size, f):
    common = {'ver': f.int(0, 255), 'sub': f.int(0, 255), 'comp': f.int(0, 0xFFFF)}
    if kind in ('PS', 'SS'):
        s = M.default_src(**common)
        s['id'] = kind
        s['words'] = [f.int(0, 0xFFFFFFFF) for _ in range(8)]
        s['ascii'] = M.pad_text('B' + f.text(7, '0123456789ABCDEF'), 32, b' ')
        if size >= 1:
            cl = []
            for j in range(size):
                fl = f.int(0, 15)
                c = {'flags': 0x28, 'prio': f.choice([0x48, 0x4D, 0x4C]),
                     'loc': M.pad_text(f.text(f.choice([0, 4, 12])), 0) if False else b'',
                     'fru': {'flags': 0x10 | fl, 'pn': M.pad_text(f.text(7), 8),
                             'ccin': M.pad_text(f.text(4), 4), 'sn': M.pad_text(f.text(12), 12)},
                     'pce': None, 'mru': None}
                loc = f.text(f.choice([0, 4, 12]))
                c['loc'] = loc.encode()
                if size == 2:
                    c['pce'] = {'flags': 0, 'mtm': M.pad_text(f.text(8), 8),
                                'sn': M.pad_text(f.text(12), 12), 'name': M.pad_text(f.text(6), 8)}
                    if j == size - 1 or f.int(0, 1):
                        c['mru'] = {'fhi': 0, 'r4': 0, 'list': [[f.int(0, 255), f.int(0, 0xFFFFFFFF)]
                                                                 for _ in range(f.int(0, 3))]}
                        c['flags'] |= 0x04
                cl.append(c)
            s['callouts'] = {'ssid': 0xC0, 'ssflags': 0, 'list': cl}
            s['flags'] |= 1
        return s
    if kind == 'EH':
        sym = [0, 4, 37][size]
        return dict(common, k='EH', mtm=M.pad_text(f.text(8), 8), sn=M.pad_text(f.text(7), 12),
                    fw=M.pad_text(f.text(10), 16), subfw=M.pad_text(f.text(16), 16), r4=0,
                    ref=M.timestamp(), r1=0, r2=0, r3=0, symptom=M.pad_text(f.text(max(sym - 1, 0)), sym))
    if kind == 'MT':
        return dict(common, k='MT', mtm=M.pad_text(f.text([8, 4, 0][size]), 8),
                    sn=M.pad_text(f.text([12, 7, 1][size]), 12))
    if kind == 'LP':
        nlen, nt = [(0, 0), (5, 3), (8, 4)][size]
        return dict(common, k='LP', pid=f.int(0, 0xFFFF), logid=f.int(0, 0xFFFFFFFF),
                    name=M.pad_text(f.text(max(nlen - 1, 0)), nlen),
                    targets=[f.int(0, 0xFFFF) for _ in range(nt)], pad=f.int(0, 0xFFFF))
    n = [1, 16, 37][size]
    if kind == 'UD':
        return dict(common, k='UD', data=f.bytes(n))
    if kind == 'ED':
        return dict(common, k='ED', creator=f.int(0, 255), r1=0, r2=0, data=f.bytes(n))
    return dict(common, k='RAW', id=(ord(kind[0]) << 8) | ord(kind[1]), data=f.bytes(n))


def pair_cases(tier, seed):
    out = []
    for a in KINDS:
        for b in KINDS:
            if a == 'PS' and b == 'PS':
                continue
            for sa in range(3):
                for sb in range(3):
                    out.append([a, sa, b, sb, seed])
    return out


@PROP.enum('adjacent-pairs', pair_cases, chunk=128, exhaustive=True)
def adjacent_pairs(case, note):
    a, sa, b, sb, seed = case
    f = Fill('C01pairs', a, sa, b, sb, seed)
    creator = f.choice([ord(c) for c in S.KNOWN_CREATORS] + [ord('x'), 0x7E])
    pel = M.minimal_pel([build_section(a, sa, f), build_section(b, sb, f)],
                        ph=M.default_ph(creator=creator, plid=f.int(0, 0xFFFFFFFF),
                                        eid=f.int(0, 0xFFFFFFFF)))
    check_model(pel, f.int(0, 1), note)
    note.sample = {'pair': [a, sa, b, sb], 'pel_hex': M.encode(pel)}
    note.nontrivial = True
