"""C15 - trace buffers decode entry by entry, stopping at the first malformed entry."""
from hypothesis import strategies as st

from .. import drawer as D
from ..core import Property, Violation
from ..run import guard

PROP = Property(
    'C15', 'exploration',
    rule=('Generated: structured trace buffers (header with standard or arbitrary field values, declared size '
          'actual/smaller/larger/0/huge, 0..10 entries with data length 0..1024 and every alignment, correct or '
          'wrong pad, trailer and length fields, tags FT/FD/other, hashes that hit exactly / partially / miss a '
          'synthetic or shipped string file) truncated at an arbitrary offset, plus raw byte strings. Oracle: a '
          'reference decoder written from the statement; output lines compared exactly (except column headings). '
          'Non-trivial = header readable and >= 2 entries generated with a stop condition (truncated, oversized, '
          'trailer mismatch, declared-size cut) or a fallback (partial match / no string / binary) exercised.'),
    assumptions=['trace string files have lines <hash>||<format>||<location>',
                 'message formatting uses printf-style % semantics with fallback to the raw format',
                 'the Component line is compared only when the 12 name bytes are printable ASCII or NUL'],
    design_ref='4/C15')


def trace():
    import io_drawer.trace as m
    return m


@st.composite
def structured_case(draw):
    shipped_file = draw(st.sampled_from([None, None, 'mexStringFile', 'nimitzStringFile']))
    if shipped_file:
        strings = shipped_strings(shipped_file)
        pick = [strings[draw(st.integers(0, len(strings) - 1))] for _ in range(4)]
        buf = draw(D.trace_buffer(pick))
        strings_model = None
    else:
        strings_model = draw(D.string_file())
        buf = draw(D.trace_buffer(strings_model))
    raw = D.enc_trace_buffer(buf)
    cut = draw(st.one_of(st.just(len(raw)), st.just(len(raw)), st.just(len(raw)), st.integers(0, len(raw))))
    extra = draw(st.one_of(st.just(b''), st.binary(max_size=24)))
    return {'strings': strings_model, 'shipped': shipped_file, 'data': raw[:cut] + (extra if cut == len(raw) else b''),
            'n_generated_entries': len(buf['entries']),
            'flawed': any(e['trailer'] is not None or e['pad'] is not None or e['length'] is not None
                          for e in buf['entries']) or cut < len(raw) or buf['size_mode'] != 'actual'}


_shipped = {}


def shipped_strings(name):
    if name not in _shipped:
        with open(D.shipped(name)) as f:
            _shipped[name] = D.ref_trace_strings(f.read())
        if len(_shipped[name]) < 100:
            raise Violation('C15.grammar', 'reference reader finds only %d strings in %s' % (len(_shipped[name]), name))
    return _shipped[name]


def run_case(case, note):
    data = case['data']
    if case['shipped']:
        strings = shipped_strings(case['shipped'])
        lines = guard('C15.decode', trace().parse_trace_data, D.view(data), D.shipped(case['shipped']))
    else:
        strings = case['strings'] or []
        with D.TempFile(D.render_string_file(strings), '') as path:
            lines = guard('C15.decode', trace().parse_trace_data, D.view(data), path)
    mode, n = D.compare_trace_output(lines, data, strings, oracle='C15')
    note.label(mode, 'entries=%s' % (n if n < 3 else '3+'))
    return mode, n, strings


@PROP.given('structured', lambda tier: structured_case(), quick=4000, thorough=48000, shards_quick=8)
def structured(case, note):
    mode, n, strings = run_case(case, note)
    fallback = False
    ref = D.ref_trace_entries(case['data'])
    if ref:
        for e in ref[1]:
            s, partial = D.ref_lookup(strings, e['hash'])
            if partial or s is None or e['tag'] == 0x4644:
                fallback = True
        if any(D.ref_lookup(strings, e['hash'])[1] for e in ref[1]):
            note.label('partial-match')
    note.nontrivial = mode == 'header' and case['n_generated_entries'] >= 2 and (case['flawed'] or fallback)


@PROP.given('raw-bytes', lambda tier: st.fixed_dictionaries({
    'strings': st.just(None), 'shipped': st.sampled_from(['mexStringFile', None]),
    'data': st.one_of(st.binary(max_size=31), st.binary(min_size=32, max_size=200),
                      st.binary(max_size=64).map(lambda b: b'\x02\x20\x01\x42FANS        \x00\x00\x00\x00' + b)),
    'n_generated_entries': st.just(0), 'flawed': st.just(True)}), quick=2400, thorough=30000, shards_quick=8)
def raw_bytes(case, note):
    mode, n, _ = run_case(case, note)
    note.nontrivial = len(case['data']) > 0


# ---------------------------------------------------------------------------
# coverage-guided bytes (atheris), thorough tier
# ---------------------------------------------------------------------------

@PROP.custom('coverage-guided')
def coverage_guided(ctx):
    from .. import fuzz
    from ..core import FacetResult
    if ctx.tier == 'quick':
        r = FacetResult('coverage-guided')
        r.notes.append('coverage-guided campaign runs in the thorough tier only')
        return r
    strings = shipped_strings('mexStringFile')
    corpus = []
    for k in range(12):
        entries = [{'tbh': 100 + k, 'tbl': k, 'tag': 0x4654 if k % 2 else 0x4644, 'hash': strings[(7 * k + j) % len(strings)]['hash'],
                    'line': 10 * k, 'data': bytes(range(4 * (k % 5))), 'length': None, 'pad': None, 'trailer': None}
                   for j in range(k % 4)]
        corpus.append(D.enc_trace_buffer({'ver': 2, 'hdr_len': 32, 'time_flg': 1, 'endian': 0x42,
                                          'name': b'FANS        ', 'wrap': k, 'entries': entries}))
    return fuzz.campaign('coverage-guided', 'trace', corpus, runs=60000, seed=ctx.seed, jobs=4, max_len=1024,
                         sig_prefix='C15.fuzz')


def replay_coverage_guided(case):
    data = case['data']
    lines = guard('C15.decode', trace().parse_trace_data, D.view(data), D.shipped('mexStringFile'))
    D.compare_trace_output(lines, data, shipped_strings('mexStringFile'), oracle='C15')
