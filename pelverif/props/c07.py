"""C07 - PEL selection follows the documented class/severity/--only rules.

Reference predicate transcribed from the statement (and README), evaluated
independently of considerPEL, over the full product

    256 severity bytes x 8 (service-action, hidden, report) x 64 class switches
    x 128 severity-group subsets = 16 777 216 points

plus look-ups without selection options, plus the command line (option strings
-> selection) through `peltool -n`.
"""
import collections
import os
import shutil
import tempfile

from hypothesis import strategies as st

from .. import cli
from .. import model as M
from ..core import Property, Violation, HarnessError
from ..run import R, make_config, captured
from ..util import Fill

PROP = Property(
    'C07', 'exploration',
    rule=('Enumerated: every severity byte x the three class-relevant action flags x all 64 combinations of '
          '-E -s -N -H -t -O x all 128 subsets of the seven severity groups (other 13 flag bits and header bytes '
          'filled from the seed); look-ups (--plid/--src/--bmc-id/--id/--src-exclude) with no selection option; '
          'generated command lines (clustered short options, long options, -S with several names) against a '
          'directory of PELs spanning the severity/flag space. Every enumerated point is distinct; non-trivial = '
          'at least one selection option is set (the default-only point is the trivial one). CLI cases are '
          'non-trivial when the directory holds >= 4 PELs of which a proper non-empty subset is selected.'),
    assumptions=['UserHeader objects are obtained by decoding encoded headers with the repo (generateUH)',
                 'Config attribute names (serviceable, non_serviceable, hidden, critSysTerm, only, every_pel, '
                 'severities) are the interface between option parsing and selection',
                 'look-ups combined with selection options are not constrained by the statement'],
    design_ref='4/C07')

GROUP_DIGITS = [0, 1, 2, 4, 5, 6, 7]


def group_table():
    g = R.pel_values.severityGroupValues
    return g


# ---------------------------------------------------------------------------
# reference predicate
# ---------------------------------------------------------------------------

def ref_hidden(flags):
    return bool(flags & 0x4000)


def ref_serviceable(sev, flags):
    if sev != 0x00:
        return bool(flags & 0x2000) and not ref_hidden(flags)
    return bool(flags & 0x8000)


def ref_selected(sev, flags, E, s, N, H, t, O, groups, lookup=False):
    hidden = ref_hidden(flags)
    svc = ref_serviceable(sev, flags)
    in_group = (sev >> 4) in groups
    default = svc and not hidden
    if E:
        return True
    any_option = s or N or H or t or bool(groups) or O
    if not any_option:
        return True if lookup else default
    if not O:
        return bool(default or (s and svc) or (N and not svc) or (H and hidden)
                    or (t and sev == 0x51) or (groups and in_group))
    if t and sev == 0x51:
        return True
    classes = s or N or H
    if not classes and not groups:
        return None if lookup else False       # look-up + only: not constrained
    ok_class = (not classes) or (s and svc) or (N and not svc) or (H and hidden)
    ok_sev = (not groups) or in_group
    res = bool(ok_class and ok_sev)
    if lookup and not res:
        return None
    return res


# ---------------------------------------------------------------------------
# full product
# ---------------------------------------------------------------------------

def make_uh(sev, flags, f=None):
    uhm = M.default_uh(sev=sev, flags=flags)
    if f is not None:
        uhm.update(subsys=f.int(0, 255), scope=f.int(0, 255), etype=f.int(0, 255), r4=f.int(0, 0xFFFFFFFF),
                   domain=f.int(0, 255), vector=f.int(0, 255), states=f.int(0, 0xFFFFFFFF))
    data = M.enc_uh(uhm)
    stream = R.datastream.DataStream(data, byte_order='big', is_signed=False)
    out = collections.OrderedDict()
    with captured():
        ok, uh = R.peltool.generateUH(stream, 'O', out)
    if not ok:
        raise HarnessError('generateUH rejected an encoded user header')
    return uh


def grid_cases(tier, seed):
    fills = 1 if tier == 'quick' else 4
    return [[sev, fill, seed] for sev in range(256) for fill in range(fills)]


def all_configs():
    cfgs = []
    for sw in range(64):
        E, s, N, H, t, O = [(sw >> i) & 1 for i in range(6)]
        for gm in range(128):
            groups = [GROUP_DIGITS[i] for i in range(7) if (gm >> i) & 1]
            c = make_config(every_pel=bool(E), serviceable=bool(s), non_serviceable=bool(N), hidden=bool(H),
                            critSysTerm=bool(t), only=bool(O), severities=list(groups))
            cfgs.append((c, (E, s, N, H, t, O), frozenset(groups), sw, gm))
    return cfgs


_cfg_cache = []


@PROP.enum('product', grid_cases, chunk=4, exhaustive=True)
def product(case, note):
    sev, fill, seed = case
    if not _cfg_cache:
        _cfg_cache.extend(all_configs())
    consider = R.peltool.considerPEL
    f = Fill('C07grid', sev, fill, seed)
    n = 0
    for fb in range(8):
        flags = (0x8000 if fb & 1 else 0) | (0x4000 if fb & 2 else 0) | (0x2000 if fb & 4 else 0) \
            | (f.int(0, 0xFFFF) & 0x1FFF)
        uh = make_uh(sev, flags, f)
        for c, sw, groups, swi, gm in _cfg_cache:
            want = ref_selected(sev, flags, *sw, groups)
            got = bool(consider(uh, c))
            n += 1
            if got != want:
                names = [k for k, v in group_table().items() if v in groups]
                raise Violation(
                    'C07.predicate',
                    'severity 0x%02X flags 0x%04X (hidden=%s serviceable=%s) with options every=%d serviceable=%d '
                    'non-serviceable=%d hidden=%d termination=%d only=%d severities=%s: selected=%s, rule says %s'
                    % ((sev, flags, ref_hidden(flags), ref_serviceable(sev, flags)) + tuple(sw)
                       + (names, got, want)),
                    sig='C07.predicate:%s' % ('sev<0x10' if sev < 0x10 and groups else 'other'))
    note.points = n
    note.nontrivial_points = n - 8       # the all-options-off points are the trivial ones
    note.sample = {'severity': sev, 'points': n, 'example': 'flags=0x%04X switches=E s N H t O, groups subset mask' % flags}
    if sev < 0x10:
        note.label('sev<0x10')


# ---------------------------------------------------------------------------
# look-ups without selection options consider every PEL
# ---------------------------------------------------------------------------

def lookup_cases(tier, seed):
    return [[kind, seed] for kind in ('plid', 'src', 'bmcID', 'pelID', 'srcExcludeFile')]


@PROP.enum('lookups', lookup_cases, chunk=1, exhaustive=True)
def lookups(case, note):
    kind, seed = case
    f = Fill('C07lookup', kind, seed)
    value = {'plid': '50000001', 'src': 'BD8D', 'bmcID': '12', 'pelID': '50000001',
             'srcExcludeFile': '/nonexistent/exclude'}[kind]
    c = make_config(**{kind: value})
    n = 0
    for sev in range(256):
        for fb in range(8):
            flags = (0x8000 if fb & 1 else 0) | (0x4000 if fb & 2 else 0) | (0x2000 if fb & 4 else 0) \
                | (f.int(0, 0xFFFF) & 0x1FFF)
            uh = make_uh(sev, flags)
            n += 1
            if not R.peltool.considerPEL(uh, c):
                raise Violation('C07.lookup', 'a %s look-up without selection options skips a PEL with severity '
                                '0x%02X flags 0x%04X (hidden=%s serviceable=%s)'
                                % (kind, sev, flags, ref_hidden(flags), ref_serviceable(sev, flags)),
                                sig='C07.lookup:%s' % kind)
    note.points = n
    note.nontrivial_points = n
    note.sample = {'lookup': kind, 'points': n}


# ---------------------------------------------------------------------------
# look-ups through the command line (ids 0, small and large; hidden / non-serviceable PELs)
# ---------------------------------------------------------------------------

@st.composite
def cli_lookup_case(draw):
    ident = draw(st.sampled_from([0, 0, 1, 4, 0x0FFFFFFF, 0x50000001, 0xFFFFFFFF]))
    sev = draw(st.one_of(st.sampled_from([0x00, 0x10, 0x20, 0x40, 0x51]), st.integers(0, 255)))
    flags = draw(st.integers(0, 0xFFFF))
    return {'kind': draw(st.sampled_from(['bmc', 'plid', 'id', 'src'])), 'ident': ident, 'sev': sev, 'flags': flags,
            'hex': draw(st.booleans())}


@PROP.given('cli-lookups', lambda tier: cli_lookup_case(), quick=300, thorough=6000, shards_quick=8)
def cli_lookups(case, note):
    import json
    d = tempfile.mkdtemp(prefix='c07l')
    try:
        v = case['ident']
        pel = M.minimal_pel([M.default_src()], ph=M.default_ph(eid=v, plid=v, obmc=v),
                            uh=M.default_uh(sev=case['sev'], flags=case['flags']))
        with open(os.path.join(d, '1718273645091827_%08X' % v), 'wb') as fh:
            fh.write(M.encode(pel))
        argv = ['-p', d] + {'bmc': ['--bmc-id', str(v)], 'plid': ['--plid', '%08X' % v], 'id': ['-i', '%08X' % v],
                            'src': ['--src', 'BD8D1234']}[case['kind']] + (['-x'] if case['hex'] else [])
        r = cli.forked(argv)
        shown = ('PEL Begin' in r.out) if case['hex'] else None
        if not case['hex']:
            try:
                doc = json.loads(r.out)
                shown = bool(doc)
            except ValueError:
                shown = False
        if r.status != 0 or not shown:
            raise Violation('C07.cli-lookup', 'peltool %s does not find the only PEL of the directory (id %d, severity '
                            '0x%02X, flags 0x%04X: hidden=%s serviceable=%s): %s'
                            % (' '.join(argv[2:]), v, case['sev'], case['flags'], ref_hidden(case['flags']),
                               ref_serviceable(case['sev'], case['flags']), r.brief()),
                            sig='C07.cli-lookup:%s' % case['kind'])
        note.label('lookup=' + case['kind'])
        if v == 0:
            note.label('id=0')
        note.nontrivial = ref_hidden(case['flags']) or not ref_serviceable(case['sev'], case['flags'])
    finally:
        shutil.rmtree(d, ignore_errors=True)


# ---------------------------------------------------------------------------
# several command lines in one process
# ---------------------------------------------------------------------------

@st.composite
def sequence_case(draw):
    c = draw(cli_case())
    steps = []
    for _ in range(draw(st.integers(2, 4))):
        on = [draw(st.booleans()) and draw(st.booleans()) for _ in SWITCHES]
        groups = draw(st.lists(st.sampled_from(list(group_table().keys())), max_size=3))
        steps.append({'on': on, 'groups': groups, 'mode': draw(st.sampled_from(['-n', '-l']))})
    return {'pels': c['pels'], 'steps': steps}


@PROP.given('cli-sequences', lambda tier: sequence_case(), quick=200, thorough=4000, shards_quick=8)
def cli_sequences(case, note):
    """peltool.main() called repeatedly in one process: the selection of each call follows from its own
    options only"""
    import json
    from ..run import main_inprocess
    d = tempfile.mkdtemp(prefix='c07s')
    try:
        for i, (sev, flags) in enumerate(case['pels']):
            pel = M.minimal_pel([M.default_src()], ph=M.default_ph(eid=0x50000000 + i, plid=0x50000000 + i),
                                uh=M.default_uh(sev=sev, flags=flags))
            with open(os.path.join(d, 'pel%02d' % i), 'wb') as fh:
                fh.write(M.encode(pel))
        gt = group_table()
        for k, st_ in enumerate(case['steps']):
            sub_case = {'on': st_['on'], 'groups': st_['groups'], 'style': 'separate', 'mode': st_['mode'],
                        'sev_pos': 'after'}
            argv = build_argv(sub_case, d)
            status, out, err = main_inprocess(argv)
            note.extra_eval += 1
            groups = frozenset(gt[g] for g in st_['groups'])
            E, s, N, H, t, O = st_['on']
            want = [i for i, (sev, flags) in enumerate(case['pels'])
                    if ref_selected(sev, flags, E, s, N, H, t, O, groups)]
            try:
                doc = json.loads(out)
            except ValueError:
                raise Violation('C07.sequence', 'call %d (%s) printed no JSON: %r %r' % (k + 1, ' '.join(argv), out[:100], err[:200]))
            got = doc.get('Number of PELs found') if st_['mode'] == '-n' else len(doc)
            if status != 0 or got != len(want):
                prev = [' '.join(build_argv({'on': p['on'], 'groups': p['groups'], 'style': 'separate', 'mode': p['mode'],
                                             'sev_pos': 'after'}, '<dir>')) for p in case['steps'][:k]]
                raise Violation('C07.sequence', 'call %d in one process, peltool %s, selects %r PELs; the documented rules '
                                'select %d of %r (earlier calls: %r)' % (k + 1, ' '.join(argv[:-2] if argv[-2] == '-p' else argv),
                                                                         got, len(want), case['pels'], prev),
                                sig='C07.sequence')
        note.nontrivial = any(s_['groups'] for s_ in case['steps'][:-1])
    finally:
        shutil.rmtree(d, ignore_errors=True)


# ---------------------------------------------------------------------------
# command line -> selection
# ---------------------------------------------------------------------------

SWITCHES = [('E', '--every-pel'), ('s', '--serviceable'), ('N', '--non-serviceable'), ('H', '--hidden'),
            ('t', '--termination'), ('O', '--only')]


@st.composite
def cli_case(draw):
    n = draw(st.integers(4, 10))
    pels = []
    for i in range(n):
        sev = draw(st.one_of(st.sampled_from([0x00, 0x10, 0x20, 0x40, 0x50, 0x51, 0x60, 0x71, 0x05, 0x0F, 0x01]),
                             st.integers(0, 255)))
        flags = draw(st.integers(0, 0xFFFF))
        pels.append([sev, flags])
    on = [draw(st.booleans()) and draw(st.booleans()) for _ in SWITCHES]
    names = list(group_table().keys())
    groups = draw(st.lists(st.sampled_from(names), max_size=3, unique=False))
    style = draw(st.sampled_from(['cluster', 'separate', 'long']))
    mode = draw(st.sampled_from(['-n', '-n', '-l', '-a']))
    # how the selected set is presented: JSON, hex blocks (-x), or files written by --json
    variant = draw(st.sampled_from(['json', 'json', 'json', 'hex', 'files']))
    sev_pos = draw(st.sampled_from(['before', 'after']))
    return {'pels': pels, 'on': on, 'groups': groups, 'style': style, 'mode': mode, 'sev_pos': sev_pos,
            'variant': variant}


def build_argv(case, d):
    letters = [SWITCHES[i][0] for i, v in enumerate(case['on']) if v]
    longs = [SWITCHES[i][1] for i, v in enumerate(case['on']) if v]
    argv = []
    sev = (['-S'] + case['groups']) if case['groups'] else []
    if case['style'] == 'long':
        sev = (['--severities'] + case['groups']) if case['groups'] else []
    if case['sev_pos'] == 'before':
        argv += sev
    mode_letter = case['mode'][1]
    if case['style'] == 'cluster':
        argv.append('-' + mode_letter + ''.join(letters))
    elif case['style'] == 'separate':
        argv += [case['mode']] + ['-' + l for l in letters]
    else:
        argv += [{'-n': '--show-pel-count', '-l': '--list', '-a': '--all-pels'}[case['mode']]] + longs
    argv += ['-p', d]
    if case['sev_pos'] == 'after':
        argv += sev
    return argv


def selected_by_variant(case, argv, d, want):
    """the same selection seen through --hex (blocks parse back to the files) and --json (files written)"""
    from .c13 import split_blocks
    from ..util import parse_default_dump
    variant = case.get('variant', 'json')
    if variant == 'hex' and case['mode'] in ('-l', '-a'):
        argv = argv + ['-x']
        r = cli.forked(argv)
        if r.status != 0:
            raise Violation('C07.cli', 'peltool %s failed: %s' % (' '.join(argv), r.brief()))
        got = []
        for block in split_blocks(r.out):
            raw = parse_default_dump([l for l in block if l.strip()], 'hex block') if any(l.strip() for l in block) else b''
            if len(raw) < 48:
                raise Violation('C07.cli', 'peltool %s printed a block of %d bytes' % (' '.join(argv), len(raw)))
            got.append(int.from_bytes(raw[44:48], 'big') - 0x50000000)
        what = 'dumps'
    elif variant == 'files':
        out = os.path.join(d, 'out')
        os.mkdir(out)
        argv = [a for a in argv if a not in ('-n', '-l', '-a', '--show-pel-count', '--list', '--all-pels')]
        # clustered spelling: replace the mode letter
        argv = [('-j' + a[2:]) if (a.startswith('-') and not a.startswith('--') and len(a) > 2 and a[1] in 'nla') else a
                for a in argv]
        if not any(a == '-j' or (a.startswith('-j') and not a.startswith('--')) for a in argv):
            argv = ['-j'] + argv
        argv += ['-o', out]
        r = cli.forked(argv)
        if r.status != 0:
            raise Violation('C07.cli', 'peltool %s failed: %s' % (' '.join(argv), r.brief()))
        got = []
        for fn in os.listdir(out):
            parts = fn.split('.')
            if len(parts) == 3 and parts[2] == 'json':
                got.append(int(parts[0][3:]))
        what = 'writes JSON files for'
    else:
        return
    if sorted(got) != want:
        raise Violation('C07.cli', 'peltool %s %s PELs %r, the documented rules select %r of %r'
                        % (' '.join(a for a in argv if not a.startswith('/')), what, sorted(got), want, case['pels']),
                        sig='C07.cli.%s' % case.get('variant'))


@PROP.given('cli-options', lambda tier: cli_case(), quick=1600, thorough=8000, shards_quick=8)
def cli_options(case, note):
    import json
    d = tempfile.mkdtemp(prefix='c07')
    try:
        for i, (sev, flags) in enumerate(case['pels']):
            pel = M.minimal_pel([M.default_src()], ph=M.default_ph(eid=0x50000000 + i, plid=0x50000000 + i),
                                uh=M.default_uh(sev=sev, flags=flags))
            with open(os.path.join(d, 'pel%02d' % i), 'wb') as fh:
                fh.write(M.encode(pel))
        argv = build_argv(case, d)
        r = cli.forked(argv)
        if r.status != 0:
            raise Violation('C07.cli', 'peltool %s failed: %s' % (' '.join(argv), r.brief()))
        gt = group_table()
        groups = frozenset(gt[g] for g in case['groups'])
        E, s, N, H, t, O = case['on']
        want = [i for i, (sev, flags) in enumerate(case['pels']) if ref_selected(sev, flags, E, s, N, H, t, O, groups)]
        try:
            doc = json.loads(r.out)
        except ValueError:
            raise Violation('C07.cli', 'peltool %s printed no JSON: %s' % (' '.join(argv), r.brief()))
        if case['mode'] == '-n':
            got = doc.get('Number of PELs found') if isinstance(doc, dict) else None
            if got != len(want):
                raise Violation('C07.cli', 'peltool %s counts %r PELs, the documented rules select %d of %r'
                                % (' '.join(argv[:-2] if argv[-2] == '-p' else argv), got, len(want),
                                   [['0x%02X' % a, '0x%04X' % b] for a, b in case['pels']]), sig='C07.cli.count')
        elif case['mode'] == '-l':
            got = sorted(int(k, 16) - 0x50000000 for k in doc)
            if got != want:
                raise Violation('C07.cli', 'peltool %s lists PELs %r, the documented rules select %r of %r'
                                % (' '.join(argv), got, want, case['pels']), sig='C07.cli.list')
        else:
            got = sorted(int(x['Private Header']['Entry Id'], 16) - 0x50000000 for x in doc)
            if got != want:
                raise Violation('C07.cli', 'peltool %s shows PELs %r, the documented rules select %r of %r'
                                % (' '.join(argv), got, want, case['pels']), sig='C07.cli.all')
        selected_by_variant(case, argv, d, want)
        note.label('style-' + case['style'], 'mode' + case['mode'], 'variant-' + case.get('variant', 'json'))
        if O:
            note.label('only')
        if groups and (s or N or H):
            note.label('class+severity')
        if any(sev < 0x10 for sev, _ in case['pels']):
            note.label('has-sev<0x10')
        note.nontrivial = 0 < len(want) < len(case['pels'])
    finally:
        shutil.rmtree(d, ignore_errors=True)
