"""C18 - parser modules are chosen by creator/component, fed the right data, contained."""
import json
import struct
import os
import sys

from hypothesis import strategies as st

from .. import cli
from .. import dirs as D
from .. import drawer as DR
from .. import model as M
from .. import plugins as PL
from .. import strategies as S
from ..core import Property, Violation
from ..run import R, decode, must_decode, make_config, need, guard
from ..util import parse_default_dump
from .c01 import expected_names

PROP = Property(
    'C18', 'exploration',
    rule=('Generated: PELs whose user-data / extended-user-data sections, SRCs and maintenance-procedure callouts are '
          'served by fixture parser modules materialised per case (present for a generated subset of names, with '
          'decoy modules under near-miss names), each with a behaviour table: return a JSON object / list / scalar, '
          'return None, raise one of 9 exception kinds - possibly only on the first call; plug-ins on/off (Config and '
          'peltool -P in a real interpreter); the shipped m2c00 plug-in with all subtypes x versions x payloads. '
          'Oracle: the recorded call log equals the expected calls (module name, arguments, order); a failing parser '
          'changes only its own section (every other entry equals the decode in which that parser is benign); with '
          'plug-ins off nothing is called or imported. Non-trivial = a PEL with >= 2 plug-in-served sections of which '
          'one fails, or an SRC routed through the BMC wrapper, or plug-ins off with fixtures present.'),
    assumptions=['fixture modules are made importable by extending the plug-in packages\' __path__ (in-process) or by '
                 'a sitecustomize hook (real interpreter)',
                 'SRC parsers receive hex words beyond the valid word count as 00000000',
                 'the stand-alone I/O-drawer decoders are correct (C14-C16)'],
    design_ref='4/C18')

BENIGN = {'kind': 'json', 'value': {'Fixture': 'ok'}}

behaviour = st.one_of(
    st.just(None),
    st.fixed_dictionaries({'kind': st.just('json'), 'value': st.one_of(
        st.dictionaries(st.sampled_from(['A', 'B', 'Data', 'Error', 'x"y']), st.integers(0, 9), max_size=3),
        st.lists(st.integers(0, 9), max_size=3), st.integers(0, 9), st.text(max_size=5))}),
    st.just({'kind': 'none'}),
    st.sampled_from(PL.RAISES).map(lambda e: {'kind': 'raise', 'exc': e}),
)
failing = st.one_of(st.just({'kind': 'none'}), st.sampled_from(PL.RAISES).map(lambda e: {'kind': 'raise', 'exc': e}))

FIX_CREATORS = 'bchklpstxz7'      # 'o' and 'm' have shipped modules; handled separately


def is_failing(b):
    return bool(b) and b.get('kind') in ('none', 'raise')


@st.composite
def ud_case(draw):
    creator = draw(st.sampled_from(FIX_CREATORS + FIX_CREATORS.upper()[:6]))
    n = draw(st.integers(1, 4))
    comps = draw(st.lists(st.sampled_from([0x1000, 0xABCD, 0x00FF, 0xE500, 0x2C00, 0x0001]), min_size=1, max_size=2,
                          unique=True))
    secs = []
    for _ in range(n):
        kind = draw(st.sampled_from(['UD', 'UD', 'ED']))
        comp = draw(st.sampled_from(comps))
        common = {'ver': draw(S.byte), 'sub': draw(S.byte), 'comp': comp, 'data': draw(S.payload(24))}
        if kind == 'UD':
            secs.append(dict(common, k='UD'))
        else:
            secs.append(dict(common, k='ED', creator=ord(draw(st.sampled_from(FIX_CREATORS))), r1=0, r2=0))
    if draw(st.booleans()):
        secs.insert(draw(st.integers(0, len(secs))), draw(S.raw_section(max_len=8)))
    pel = M.minimal_pel(secs, ph=M.default_ph(creator=ord(creator)))
    # fixture modules for a subset of the names in use, behaviours per module
    names = []
    for s in secs:
        if s['k'] == 'UD':
            names.append(PL.ud_module_name(creator, s['comp']))
        elif s['k'] == 'ED':
            names.append(PL.ud_module_name(chr(s['creator']), s['comp']))
    spec = {}
    for nm in sorted(set(names)):
        if draw(st.integers(0, 3)) != 0:
            b = draw(behaviour)
            if is_failing(b) and draw(st.booleans()):
                b = {'sequence': [b, draw(behaviour), BENIGN]}
            spec[nm] = b
    # decoys: near-miss names that must never be consulted
    decoys = {}
    for nm in sorted(set(names))[:2]:
        decoys[nm[0] + '%04x' % ((int(nm[1:], 16) + 1) & 0xFFFF)] = BENIGN
        decoys[('q' if nm[0] != 'q' else 'r') + nm[1:]] = BENIGN
    for k in list(decoys):
        if k in spec or k in names or k in PL.SHIPPED['udparsers']:
            del decoys[k]
    return {'pel': pel, 'ud': spec, 'decoys': decoys, 'plugins': draw(st.integers(0, 4)) != 0}


def first_behaviour(b, i):
    if b and 'sequence' in b:
        return b['sequence'][min(i, len(b['sequence']) - 1)]
    return b


def benign_version(spec):
    return {k: BENIGN for k in spec}


def section_entries(doc, pel):
    names = expected_names(pel)
    return names, [need(doc, n) for n in names]


@PROP.given('user-data-parsers', lambda tier: ud_case(), quick=1600, thorough=20000, shards_quick=8)
def user_data_parsers(case, note):
    pel, plugins = case['pel'], case['plugins']
    creator = chr(pel['ph']['creator'])
    data = M.encode(pel)
    allmods = dict(case['ud'])
    allmods.update(case['decoys'])
    cfg = make_config(allow_plugins=plugins, every_pel=True)
    before_mods = set(PL.plugin_modules_loaded())
    with PL.PluginFixtures({'udparsers': allmods}) as fx:
        if plugins and len(data) % 3 == 0 and not any(isinstance(b, dict) and 'sequence' in b
                                                       for b in case['ud'].values()):
            must_decode(data, make_config(allow_plugins=False, every_pel=True), oracle='C18.decode')
            if fx.calls:
                raise Violation('C18.plugins-off', 'parser modules ran during a decode with plug-ins disabled: %r'
                                % fx.calls[:2], sig='C18.plugins-off:ran')
            note.label('disabled-then-enabled')
        o = must_decode(data, cfg, oracle='C18.decode')
        calls = fx.calls
        loaded = set(PL.plugin_modules_loaded()) - before_mods
    if o.doc is None:
        raise Violation('C18.json', 'output is not JSON')
    names, entries = section_entries(o.doc, pel)
    # expected calls, in section order
    want = []
    per_module_calls = {}
    fails = []          # indices (into secs) of sections whose parser failed
    for i, s in enumerate(pel['secs']):
        if s['k'] not in ('UD', 'ED'):
            continue
        c = creator if s['k'] == 'UD' else chr(s['creator'])
        nm = PL.ud_module_name(c, s['comp'])
        if plugins and nm in case['ud']:
            full = 'udparsers.%s.%s' % (nm, nm)
            k = per_module_calls.get(nm, 0)
            per_module_calls[nm] = k + 1
            want.append(['udparsers', full, [s['sub'], s['ver'], s['data'].hex()]])
            b = first_behaviour(case['ud'][nm], k)
            entry = entries[2 + i]
            if is_failing(b):
                fails.append(i)
                err = entry.get('Error')
                if not isinstance(err, str) or not err:
                    raise Violation('C18.contain', '%s: parser %s %s but the section has no error note (keys %r)'
                                    % (names[2 + i], nm, b, list(entry)), sig='C18.contain:no-error-note')
                got = parse_default_dump(need(entry, 'Data', names[2 + i]), names[2 + i])
                if got != s['data']:
                    raise Violation('C18.contain', '%s: failing parser, dump carries %s, payload %s'
                                    % (names[2 + i], got.hex(), s['data'].hex()), sig='C18.contain:payload')
            elif b is None or b.get('kind') == 'json':
                v = {'Fixture': full, 'Subtype': s['sub'], 'Version': s['ver'], 'Length': len(s['data'])} \
                    if b is None else b['value']
                if isinstance(v, dict):
                    for kk, vv in v.items():
                        if entry.get(kk) != vv:
                            raise Violation('C18.result', '%s: parser result key %r=%r is shown as %r'
                                            % (names[2 + i], kk, vv, entry.get(kk)), sig='C18.result')
                elif entry.get('Data') != v:
                    raise Violation('C18.result', '%s: parser result %r is shown as %r'
                                    % (names[2 + i], v, entry.get('Data')), sig='C18.result')
        else:
            # no parser consulted: the payload must be dumped (C04 decides the details)
            pass
    if calls != want:
        raise Violation('C18.calls', 'parser calls %r, expected %r (creator %r, plug-ins %s)'
                        % (calls[:4], want[:4], creator, 'on' if plugins else 'off'),
                        sig='C18.calls:%s' % ('off' if not plugins else 'on'))
    if not plugins and loaded:
        raise Violation('C18.plugins-off', 'parser modules %r were imported although plug-ins are disabled'
                        % sorted(loaded), sig='C18.plugins-off:imported')
    # containment: every other section equals the decode in which all parsers are benign
    if fails and plugins:
        with PL.PluginFixtures({'udparsers': dict(benign_version(case['ud']), **case['decoys'])}):
            ob = must_decode(data, cfg, oracle='C18.decode')
        note.extra_eval += 1
        nb, eb = section_entries(ob.doc, pel)
        for i, (n1, e1, e2) in enumerate(zip(names, entries, eb)):
            sec_i = i - 2
            if sec_i in fails:
                continue
            s = pel['secs'][sec_i] if sec_i >= 0 else None
            if s is not None and s['k'] in ('UD', 'ED'):
                c = creator if s['k'] == 'UD' else chr(s['creator'])
                if PL.ud_module_name(c, s['comp']) in case['ud']:
                    # served by a fixture whose (non failing) behaviour differs between the two runs: compare
                    # only that it was offered to the parser (already done through the call log)
                    continue
            if e1 != e2:
                raise Violation('C18.contain', '%s changes when the parser of another section fails: %r vs %r'
                                % (n1, e1, e2), sig='C18.contain:other-section')
    served = sum(per_module_calls.values())
    note.nontrivial = (served >= 2 and bool(fails)) or (not plugins and bool(case['ud']))
    note.label('plugins-' + ('on' if plugins else 'off'), 'served=%s' % min(served, 3))
    if fails:
        note.label('a-parser-fails')
    if any(isinstance(b, dict) and 'sequence' in b for b in case['ud'].values()):
        note.label('fails-on-first-call-only')


# ---------------------------------------------------------------------------
# SRC parsers and call-out parsers
# ---------------------------------------------------------------------------

@st.composite
def src_case(draw):
    route = draw(st.sampled_from(['direct', 'direct', 'bmc', 'bmc', 'bmc-bc']))
    if route == 'direct':
        creator = draw(st.sampled_from('bchklpstxz'))
        head = draw(st.sampled_from(['BD', '11', 'BC', 'B7']))
    else:
        creator = 'O'
        head = 'BC' if route == 'bmc-bc' else draw(st.sampled_from(['BD', '11', 'B7']))
    comp2 = draw(st.sampled_from(['8D', 'A1', '2C', '00', 'FF', 'C3']))
    n_src = draw(st.integers(1, 3))
    secs = []
    for i in range(n_src):
        h = head
        if route != 'direct' and draw(st.integers(0, 2)) == 0:
            # BMC PELs mix ordinary and hostboot (BC) reference codes of the same component byte
            h = 'BC' if head != 'BC' else draw(st.sampled_from(['BD', '11']))
        code = h + draw(st.text(st.sampled_from(D.HEX), min_size=2, max_size=2)) + comp2 + \
            draw(st.text(st.sampled_from(D.HEX), min_size=2, max_size=2))
        cl = None
        if draw(st.booleans()):
            cs = []
            for _ in range(draw(st.integers(1, 2))):
                c = draw(S.callout())
                c['fru']['flags'] = (c['fru']['flags'] & 0xF0) | 0x02       # maintenance procedure
                c['fru']['pn'] = M.pad_text(draw(st.sampled_from(['PROC001', 'BMC0001', 'XYZ', 'FSI0042'])), 8)
                cs.append(c)
            cl = {'ssid': 0xC0, 'ssflags': 0, 'list': cs}
        s = M.default_src(id='PS' if i == 0 else 'SS', ascii=M.pad_text(code, 32, b' '),
                          words=[draw(S.uint(32)) for _ in range(8)],
                          wc=draw(st.sampled_from([9, 9, 9, 5, 1])), flags=1 if cl else 0, callouts=cl)
        secs.append(s)
    if draw(st.booleans()):
        secs.append({'k': 'UD', 'ver': 1, 'sub': 1, 'comp': 0x2000, 'data': b'{"tail": 1}'})
    pel = M.minimal_pel(secs, ph=M.default_ph(creator=ord(creator)))
    spec_src, spec_co = {}, {}
    if route == 'direct':
        if draw(st.integers(0, 4)) != 0:
            spec_src[creator + 'src'] = draw(behaviour)
    else:
        target = 'bsrc' if route == 'bmc-bc' else 'o' + comp2.lower() + '00'
        if draw(st.integers(0, 4)) != 0:
            spec_src[target] = draw(behaviour)
        other = 'o' + comp2.lower() + '00' if route == 'bmc-bc' else 'bsrc'
        if draw(st.booleans()):
            spec_src[other] = draw(behaviour)
        spec_src.setdefault('o' + comp2.lower()[::-1] + '00', BENIGN)     # decoy
        if 'oe500' in spec_src:
            del spec_src['oe500']
    for k, b in list(spec_src.items()):
        if is_failing(b) and draw(st.booleans()):
            spec_src[k] = {'sequence': [b, BENIGN]}
    if creator != 'O' and draw(st.booleans()):
        b = draw(st.one_of(st.just(None), st.just({'kind': 'json', 'value': ['step 1', 'step 2']}), failing,
                           st.just({'kind': 'text', 'value': ''})))
        if is_failing(b) and draw(st.booleans()):
            b = {'sequence': [b, {'kind': 'json', 'value': ['later call']}]}
        spec_co[creator + 'callouts'] = b
    return {'pel': pel, 'route': route, 'src': spec_src, 'callouts': spec_co,
            'plugins': draw(st.integers(0, 4)) != 0,
            # first decode the PEL with the opposite plug-in setting in the same process (nothing is reset)
            'prior_opposite': draw(st.integers(0, 2)) == 0}


def expected_src_module(pel, s):
    creator = chr(pel['ph']['creator']).lower()
    if creator != 'o':
        return creator + 'src'
    code = s['ascii'].decode('ascii')
    if code[:2] == 'BC':
        return 'bsrc'
    return 'o' + code[4:6].lower() + '00'


@PROP.given('src-and-callout-parsers', lambda tier: src_case(), quick=1600, thorough=20000, shards_quick=8)
def src_and_callout_parsers(case, note):
    pel, plugins = case['pel'], case['plugins']
    data = M.encode(pel)
    cfg = make_config(allow_plugins=plugins, every_pel=True)
    spec = {'srcparsers': case['src'], 'calloutparsers': case['callouts']}
    before_mods = set(PL.plugin_modules_loaded())
    with PL.PluginFixtures(spec) as fx:
        if case.get('prior_opposite') and plugins and not any(
                isinstance(b, dict) and 'sequence' in b for b in list(case['src'].values()) + list(case['callouts'].values())):
            # plug-ins were disabled for an earlier decode in this process; enabling them now must work
            must_decode(data, make_config(allow_plugins=False, every_pel=True), oracle='C18.decode')
            if fx.calls:
                raise Violation('C18.plugins-off', 'parser modules ran during a decode with plug-ins disabled: %r'
                                % fx.calls[:2], sig='C18.plugins-off:ran')
            note.label('disabled-then-enabled')
        o = must_decode(data, cfg, oracle='C18.decode')
        calls = fx.calls
        loaded = set(PL.plugin_modules_loaded()) - before_mods
    if o.doc is None:
        raise Violation('C18.json', 'output is not JSON')
    names, entries = section_entries(o.doc, pel)
    creator = chr(pel['ph']['creator']).lower()
    want = []
    counts = {}
    fails = []
    for i, s in enumerate(pel['secs']):
        if s['k'] != 'SRC':
            continue
        entry = entries[2 + i]
        # call-out parser is consulted while the callouts are rendered, i.e. before the SRC parser
        if s['callouts'] is not None and plugins:
            cm = creator + 'callouts'
            for ci, c in enumerate(s['callouts']['list']):
                proc = c['fru']['pn'].rstrip(b'\0').decode()
                shown = need(need(entry, 'Callout Section', names[2 + i]), 'Callouts')[ci]
                if cm in case['callouts']:
                    k = counts.get(cm, 0)
                    counts[cm] = k + 1
                    want.append(['calloutparsers', 'calloutparsers.%s.%s' % (cm, cm), [proc]])
                    b = first_behaviour(case['callouts'][cm], k)
                    if b is None:
                        exp = ['fixture description of ' + proc]
                    elif b.get('kind') == 'json':
                        exp = b['value']
                    else:
                        exp = None
                    if exp is not None and shown.get('Description') != exp:
                        raise Violation('C18.callout', '%s callout %d: description %r, the call-out parser returned %r '
                                        '(call %d to %s)' % (names[2 + i], ci, shown.get('Description'), exp, k, cm),
                                        sig='C18.callout:description')
                    if exp is None and 'Description' in shown:
                        raise Violation('C18.callout', '%s callout %d: description %r although the parser failed'
                                        % (names[2 + i], ci, shown['Description']), sig='C18.callout:phantom')
                    if shown.get('Procedure') != proc:
                        raise Violation('C18.callout', '%s callout %d: procedure %r shown as %r'
                                        % (names[2 + i], ci, proc, shown.get('Procedure')), sig='C18.callout:procedure')
        mod = expected_src_module(pel, s)
        if plugins and mod in case['src']:
            k = counts.get(mod, 0)
            counts[mod] = k + 1
            words = ['%08X' % w if (j + 2) <= s['wc'] else '00000000' for j, w in enumerate(s['words'])]
            want.append(['srcparsers', 'srcparsers.%s.%s' % (mod, mod), [s['ascii'].decode('ascii')] + words])
            b = first_behaviour(case['src'][mod], k)
            if is_failing(b):
                fails.append(i)
                if 'SRC Details' in entry:
                    raise Violation('C18.src', '%s shows SRC Details %r although its parser failed'
                                    % (names[2 + i], entry['SRC Details']), sig='C18.src:phantom-details')
            else:
                v = {'Fixture': 'srcparsers.%s.%s' % (mod, mod), 'Refcode': s['ascii'].decode('ascii')} \
                    if b is None else b['value']
                if b is not None and b.get('kind') == 'json' and v in ('', None):
                    pass
                elif entry.get('SRC Details') != v:
                    raise Violation('C18.src', '%s: SRC Details %r, the parser %s returned %r'
                                    % (names[2 + i], entry.get('SRC Details'), mod, v), sig='C18.src:details')
        elif 'SRC Details' in entry and not (creator == 'o' and s['ascii'][4:6].lower() == b'e5'):
            raise Violation('C18.src', '%s shows SRC Details %r but no parser module serves it (expected module %s)'
                            % (names[2 + i], entry['SRC Details'], mod), sig='C18.src:phantom-details')

    def norm(c):
        c = json.loads(json.dumps(c))
        if c[0] == 'srcparsers':
            c[2][0] = c[2][0].rstrip(' \0')
        return c
    got_calls = [norm(c) for c in calls]
    want_calls = [norm(c) for c in want]
    if got_calls != want_calls:
        raise Violation('C18.calls', 'parser calls %r, expected %r (creator %r, route %s, plug-ins %s)'
                        % (got_calls[:4], want_calls[:4], creator, case['route'], 'on' if plugins else 'off'),
                        sig='C18.calls:%s:%s' % (case['route'], 'on' if plugins else 'off'))
    if not plugins:
        extra = {m for m in loaded}
        if extra:
            raise Violation('C18.plugins-off', 'parser modules %r were imported although plug-ins are disabled'
                            % sorted(extra), sig='C18.plugins-off:imported')
    if fails and plugins:
        benign = {'srcparsers': benign_version(case['src']), 'calloutparsers': case['callouts']}
        with PL.PluginFixtures(benign):
            ob = must_decode(data, cfg, oracle='C18.decode')
        note.extra_eval += 1
        nb, eb = section_entries(ob.doc, pel)
        for i, (n1, e1, e2) in enumerate(zip(names, entries, eb)):
            a, b2 = dict(e1), dict(e2)
            a.pop('SRC Details', None)
            b2.pop('SRC Details', None)
            if case['callouts']:
                a.pop('Callout Section', None)
                b2.pop('Callout Section', None)
            if a != b2:
                raise Violation('C18.contain', '%s changes (beyond its SRC Details) when an SRC parser fails: %r vs %r'
                                % (n1, a, b2), sig='C18.contain:src')
    served = sum(counts.values())
    note.nontrivial = (served >= 2 and (bool(fails) or any(is_failing(first_behaviour(b, 0)) for b in
                                                           case['callouts'].values()))) \
        or case['route'] != 'direct' or (not plugins and bool(case['src'] or case['callouts']))
    note.label('route=' + case['route'], 'plugins-' + ('on' if plugins else 'off'))
    if fails:
        note.label('src-parser-fails')
    if case['callouts']:
        note.label('callout-parser')


# ---------------------------------------------------------------------------
# the shipped I/O drawer plug-in
# ---------------------------------------------------------------------------

@st.composite
def m2c00_case(draw):
    sub = draw(st.one_of(st.sampled_from([72, 73, 84, 72, 73, 84]), S.byte))
    ver = draw(st.one_of(st.sampled_from([1, 2, 1, 2, 0, 3]), S.byte))
    kind = {72: 'hlog', 73: 'ilog', 84: 'trace'}.get(sub)
    if kind == 'trace' and draw(st.booleans()):
        # entries whose hash means something else for the other drawer type
        hs = DR.drawer_type_sensitive_hashes() or [32403714]
        buf = draw(DR.trace_buffer([{'hash': h, 'fmt': '', 'loc': ''} for h in hs[:6]] +
                                   [{'hash': 32403714, 'fmt': '', 'loc': ''}], max_entries=3))
        data = DR.enc_trace_buffer(buf)[:draw(st.integers(1, 400))]
    elif kind == 'ilog' and draw(st.booleans()):
        # entries the two drawer types describe differently: the table must be the one the version names
        vals = DR.drawer_type_sensitive_ptes() or [0]
        data = b''.join(struct.pack('>HHI', draw(S.uint(16)), draw(S.uint(16)), draw(st.sampled_from(vals)))
                        for _ in range(draw(st.integers(1, 4))))
    else:
        data = draw(st.one_of(S.payload(120), S.payload(120),
                              st.integers(1, 64).map(lambda n: bytes(n)),            # all zero
                              st.integers(1, 64).map(lambda n: b'\xff' * n)))
    # a section of the OTHER drawer type decoded just before (same process): the case carries its own history, so
    # a replay in a fresh process sees the same sequence
    before = None
    if kind in ('ilog', 'trace') and ver in (1, 2) and draw(st.booleans()):
        if kind == 'ilog':
            bdata = struct.pack('>HHI', 1, 1, (DR.drawer_type_sensitive_ptes() or [0])[0])
        else:
            bdata = DR.enc_trace_buffer(draw(DR.trace_buffer([{'hash': 32403714, 'fmt': '', 'loc': ''}], max_entries=1)))
        before = [sub, 3 - ver, bdata]
    return {'sub': sub, 'ver': ver, 'data': data, 'e2e': draw(st.integers(0, 3)) == 0, 'before': before}


@PROP.given('io-drawer-plugin', lambda tier: m2c00_case(), quick=1600, thorough=20000, shards_quick=8)
def io_drawer_plugin(case, note):
    # each case runs in its own fork: the only history a case sees is the one it carries ('before')
    from ..run import in_fork
    labels, extra = in_fork(_io_drawer_case, case)
    note.label(*labels)
    note.extra_eval += extra
    note.nontrivial = True


class _Note:
    def __init__(self):
        self.labels, self.extra_eval, self.nontrivial = [], 0, False

    def label(self, *l):
        self.labels.extend(l)


def _io_drawer_case(case):
    note = _Note()
    _io_drawer_body(case, note)
    return note.labels, note.extra_eval


def _io_drawer_body(case, note):
    import udparsers.m2c00.m2c00 as plug
    import io_drawer.hlog as hlog
    import io_drawer.ilog as ilog
    import io_drawer.trace as trace
    sub, ver, data = case['sub'], case['ver'], case['data']
    if case.get('before'):
        bsub, bver, bdata = case['before']
        guard('C18.m2c00', plug.parseUDToJson, bsub, bver, memoryview(bdata))
        note.label('after-other-drawer-type')
    text = guard('C18.m2c00', plug.parseUDToJson, sub, ver, memoryview(data))
    try:
        out = json.loads(text)
    except (ValueError, TypeError):
        raise Violation('C18.m2c00', 'the I/O-drawer plug-in returned %r, not JSON' % (text,), sig='C18.m2c00:not-json')
    if not isinstance(out, dict):
        raise Violation('C18.m2c00', 'the I/O-drawer plug-in returned %r, not a JSON object' % (out,),
                        sig='C18.m2c00:not-object')
    files = {1: ('mex_pte.h', 'mexStringFile'), 2: ('nimitz_pte.h', 'nimitzStringFile')}.get(ver)
    if sub in (72, 73, 84) and files:
        hdr, strf = DR.shipped(files[0]), DR.shipped(files[1])
        if sub == 72:
            want = {'History Log': hlog.parse_hlog_data(memoryview(data), hdr)}
        elif sub == 73:
            want = {'ILOG': ilog.parse_ilog_data(memoryview(data), hdr)}
        else:
            want = {'Trace': trace.parse_trace_data(memoryview(data), strf)}
        if out != want:
            raise Violation('C18.m2c00', 'subtype %d version %d: plug-in shows %r, the stand-alone decoder gives %r'
                            % (sub, ver, str(out)[:300], str(want)[:300]), sig='C18.m2c00:routing')
        note.label('routed')
    else:
        got = parse_default_dump(need(out, 'Data', 'plug-in output'), 'plug-in output')
        if got != data:
            raise Violation('C18.m2c00', 'subtype %d version %d: dump carries %s, payload %s'
                            % (sub, ver, got.hex(), data.hex()), sig='C18.m2c00:payload')
        if sub in (72, 73, 84) and 'Error' not in out:
            raise Violation('C18.m2c00', 'subtype %d with unsupported version %d: no error note' % (sub, ver),
                            sig='C18.m2c00:error-note')
        note.label('fallback')
    if case['e2e']:
        pel = M.minimal_pel([{'k': 'UD', 'ver': ver, 'sub': sub, 'comp': 0x2C00, 'data': data}],
                            ph=M.default_ph(creator=ord('M')))
        with PL.PluginFixtures({}):
            o = must_decode(M.encode(pel), make_config(every_pel=True), oracle='C18.decode')
        note.extra_eval += 1
        entry = need(o.doc, 'User Data')
        for k, v in out.items():
            if entry.get(k) != v:
                raise Violation('C18.m2c00', 'parsePEL shows %r=%r for an I/O drawer section, the plug-in returned %r'
                                % (k, str(entry.get(k))[:200], str(v)[:200]), sig='C18.m2c00:e2e')
        note.label('end-to-end')
    note.nontrivial = True


# ---------------------------------------------------------------------------
# --skip-parser-plugins in a real interpreter
# ---------------------------------------------------------------------------

SITECUSTOMIZE = '''
import atexit, importlib, json, os, sys
_root = os.environ.get('PELVERIF_FIXROOT')
if _root:
    for _pkg in ('udparsers', 'srcparsers', 'calloutparsers'):
        _p = os.path.join(_root, _pkg)
        if os.path.isdir(_p):
            importlib.import_module(_pkg).__path__.append(_p)

    def _dump():
        log = os.environ.get('PELVERIF_MODLOG')
        if log:
            mods = sorted(n for n in sys.modules for p in ('udparsers.', 'srcparsers.', 'calloutparsers.')
                          if n.startswith(p))
            with open(log, 'w') as f:
                json.dump(mods, f)
    atexit.register(_dump)
'''


@st.composite
def skip_case(draw):
    creator = draw(st.sampled_from('bhkx'))
    comp = draw(st.sampled_from([0x1000, 0xABCD]))
    secs = [M.default_src(flags=1, callouts={'ssid': 0xC0, 'ssflags': 0, 'list': [
        {'flags': 0x28, 'prio': 0x48, 'loc': b'', 'fru': {'flags': 0x12, 'pn': M.pad_text('PROC001', 8), 'ccin': b'',
                                                           'sn': b''}, 'pce': None, 'mru': None}]}),
            {'k': 'UD', 'ver': draw(S.byte), 'sub': draw(S.byte), 'comp': comp, 'data': draw(S.payload(16))}]
    return {'pel': M.minimal_pel(secs, ph=M.default_ph(creator=ord(creator))), 'creator': creator, 'comp': comp,
            'mode': draw(st.sampled_from(['-f', '-a', '-l', '-i', '--bmc-id', '--plid', '--src', '-j'])),
            'optimize': draw(st.booleans())}


@PROP.given('skip-plugins-real', lambda tier: skip_case(), quick=48, thorough=600, shards_quick=8)
def skip_plugins_real(case, note):
    creator, comp = case['creator'], case['comp']
    with D.TempDir('c18') as top:
        fixroot = os.path.join(top, 'fix')
        site = os.path.join(top, 'site')
        os.makedirs(site)
        with open(os.path.join(site, 'sitecustomize.py'), 'w') as f:
            f.write(SITECUSTOMIZE)
        spec = {'udparsers': {PL.ud_module_name(creator, comp): None}, 'srcparsers': {creator + 'src': None},
                'calloutparsers': {creator + 'callouts': None}}
        os.makedirs(fixroot)
        PL.PluginFixtures(spec).write(fixroot)
        d = os.path.join(top, 'logs')
        os.makedirs(d)
        path = os.path.join(d, 'pel0_50000001')
        with open(path, 'wb') as f:
            f.write(M.encode(case['pel']))
        argv = {'-f': ['-f', path], '-i': ['-p', d, '-i', '50000001'], '--bmc-id': ['-p', d, '--bmc-id', '4660'],
                '--plid': ['-p', d, '--plid', '50000001'], '--src': ['-p', d, '--src', 'BD8D'],
                '-j': ['-p', d, '-j', '-o', top]}.get(case['mode'], ['-p', d, case['mode']])
        results = {}
        for label, extra in (('on', []), ('off', ['-P'])):
            calllog = os.path.join(top, 'calls-%s.log' % label)
            modlog = os.path.join(top, 'mods-%s.json' % label)
            env_extra = {'PELVERIF_FIXROOT': fixroot, 'PELVERIF_CALLLOG': calllog, 'PELVERIF_MODLOG': modlog}
            old = {k: os.environ.get(k) for k in env_extra}
            os.environ.update(env_extra)
            try:
                r = cli.real(argv + extra, optimize=case['optimize'], extra_path=[site])
            finally:
                for k, v in old.items():
                    if v is None:
                        os.environ.pop(k, None)
                    else:
                        os.environ[k] = v
            note.extra_eval += 1
            if r.status != 0:
                raise Violation('C18.skip', 'peltool %s %s failed: %s' % (case['mode'], ' '.join(extra), r.brief()))
            calls = []
            if os.path.exists(calllog):
                with open(calllog) as f:
                    calls = [json.loads(l) for l in f if l.strip()]
            mods = []
            if os.path.exists(modlog):
                with open(modlog) as f:
                    mods = json.load(f)
            results[label] = (calls, mods, r)
        calls_on, mods_on, _ = results['on']
        calls_off, mods_off, r_off = results['off']
        if not calls_on:
            from ..core import HarnessError
            raise HarnessError('fixture parsers were not reached in the control run without -P: %s'
                               % results['on'][2].brief())
        if calls_off:
            raise Violation('C18.skip', 'peltool %s -P still ran parser modules: %r' % (case['mode'], calls_off[:3]),
                            sig='C18.plugins-off:ran')
        if mods_off:
            raise Violation('C18.skip', 'peltool %s -P still imported parser modules: %r' % (case['mode'], mods_off),
                            sig='C18.plugins-off:imported')
        note.label('mode=' + case['mode'])
        note.nontrivial = True
