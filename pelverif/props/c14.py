"""C14 - ILOG decoding reports every entry with the first matching table message."""
from hypothesis import strategies as st

from .. import drawer as D
from ..core import Property, Violation
from ..run import guard

PROP = Property(
    'C14', 'exploration',
    rule=('Generated: (a) synthetic PTE tables (0..40 entries, 8-character patterns over hex digits and * built '
          'to overlap by wildcarding/specialising earlier ones, error-class patterns with/without the reported '
          'bit, formats with 0..n conversions, parameter lists of 0..3 single digits 0..9) rendered to a header '
          'file in the documented grammar; ILOG bytes built from entries that hit a chosen table entry, its '
          'reported-flag variant, near misses, all-zero entries, 0xFFFF timestamps, 0..7 trailing bytes, random '
          'bytes; (b) the shipped tables read by an independent tokenizer with PTEs synthesised from their '
          'patterns. Oracle: a reference decoder written from the statement. Non-trivial = some entry whose PTE '
          'matches >= 2 table entries, or matches only after the reported flag is cleared, or whose '
          'format/parameter arity disagree.'),
    assumptions=['patterns contain only hex digits and * (regex metacharacters are outside the documented grammar)',
                 'parameter numbers are single digits', 'message formatting uses printf-style % semantics'],
    design_ref='4/C14')


def ilog():
    import io_drawer.ilog as m
    return m


def classify(entries, data, note):
    nt = False
    ptes = set()
    for off in range(0, len(data) - 7, 8):
        pte = int.from_bytes(data[off + 4:off + 8], 'big')
        if (pte >> 28) == 0xE and (pte ^ 0x00040000) in ptes:
            note.label('reported and plain form of one error in one log')
        ptes.add(pte)
        ms = [e for e in entries if D.pattern_matches(e['pattern'], pte)]
        if len(ms) >= 2:
            nt = True
            note.label('multi-match')
        if D.is_reported_error(pte):
            cleared = pte & ~0x00040000
            if not ms and any(D.pattern_matches(e['pattern'], cleared) for e in entries):
                nt = True
                note.label('match-after-clear')
        if ms:
            e = ms[0]
            nconv = e['fmt'].replace('%%', '').count('%')
            if nconv != len([p for p in e['params'] if 1 <= p <= 4]):
                nt = True
                note.label('arity-mismatch')
    note.nontrivial = nt


def compare(lines, entries, data):
    if not isinstance(lines, list) or len(lines) < 2:
        raise Violation('C14.shape', 'output lacks the two heading lines: %r' % (lines,))
    want = D.ref_ilog_lines(entries, data)
    got = lines[2:]
    if got != want:
        k = 0
        while k < min(len(got), len(want)) and got[k] == want[k]:
            k += 1
        raise Violation('C14.lines', 'line %d: shown %r, expected %r (%d vs %d entry lines)'
                        % (k, got[k] if k < len(got) else None, want[k] if k < len(want) else None,
                           len(got), len(want)), sig='C14.lines')


@st.composite
def synthetic_case(draw):
    entries = draw(D.pte_table())
    data = draw(st.one_of(D.ilog_bytes(entries), st.binary(max_size=64)))
    return {'entries': entries, 'data': data, 'style': draw(D.style_st), 'with_hlog': draw(st.booleans())}


@PROP.given('synthetic-tables', lambda tier: synthetic_case(), quick=1200, thorough=48000, shards_quick=8)
def synthetic(case, note):
    entries = case['entries']
    hl = [(1, 'hl_a'), (2, 'hl_b')] if case['with_hlog'] else None
    text = D.render_header_file(entries, hl, case['style'])
    with D.TempFile(text, '.h') as path:
        table = guard('C14.table', ilog().PTETable, path)
        got = [(e.pte_pattern, e.message_format, tuple(e.params)) for e in table.entries]
        want = [(e['pattern'], e['fmt'], tuple(p for p in e['params'] if 1 <= p <= 4)) for e in entries]
        if got != want:
            raise Violation('C14.grammar', 'table read as %r, header file declares %r' % (got[:4], want[:4]),
                            sig='C14.grammar')
        lines = guard('C14.decode', ilog().parse_ilog_data, D.view(case['data']), path)
    compare(lines, entries, case['data'])
    classify(entries, case['data'], note)


_shipped = {}


def shipped_table(name):
    if name not in _shipped:
        t = D.read_shipped_pte_table(D.shipped(name))
        if len(t) < 100:
            raise Violation('C14.grammar', 'independent tokenizer finds only %d entries in %s' % (len(t), name))
        _shipped[name] = t
    return _shipped[name]


@st.composite
def shipped_case(draw):
    name = draw(st.sampled_from(['mex_pte.h', 'nimitz_pte.h']))
    table = shipped_table(name)
    n = draw(st.integers(1, 12))
    out = b''
    seen = []
    for _ in range(n):
        kind = draw(st.integers(0, 6))
        if kind == 6 and seen:
            pte = draw(st.sampled_from(seen)) ^ (0x00040000 if draw(st.booleans()) else 0)
        elif kind <= 3:
            e = table[draw(st.integers(0, len(table) - 1))]
            pte = D.fill_pattern(draw, e['pattern'])
            if kind == 1:
                pte |= 0x00040000
            elif kind == 2:
                pte ^= 1 << draw(st.integers(0, 31))
        else:
            pte = draw(st.integers(0, 0xFFFFFFFF))
        out += int(draw(st.integers(0, 0xFFFF))).to_bytes(2, 'big') + \
            int(draw(st.integers(0, 0xFFFF))).to_bytes(2, 'big') + pte.to_bytes(4, 'big')
        seen.append(pte)
    out += draw(st.binary(max_size=7))
    return {'file': name, 'data': out}


@PROP.given('shipped-tables', lambda tier: shipped_case(), quick=400, thorough=20000, shards_quick=8)
def shipped(case, note):
    entries = shipped_table(case['file'])
    lines = guard('C14.decode', ilog().parse_ilog_data, D.view(case['data']), D.shipped(case['file']))
    compare(lines, entries, case['data'])
    classify(entries, case['data'], note)


# ---------------------------------------------------------------------------
# coverage-guided bytes (atheris), thorough tier
# ---------------------------------------------------------------------------

@PROP.custom('coverage-guided')
def coverage_guided(ctx):
    from .. import fuzz
    from ..core import FacetResult
    if ctx.tier == 'quick':
        r = FacetResult('coverage-guided')
        r.notes.append('coverage-guided campaign runs in the thorough tier only')
        return r
    table = shipped_table('mex_pte.h')
    corpus = []
    for e in table[:40]:
        pte = int(e['pattern'].replace('*', '1'), 16) if len(e['pattern']) == 8 else 0
        corpus.append(b'\x12\x34\x00\x01' + pte.to_bytes(4, 'big'))
    return fuzz.campaign('coverage-guided', 'ilog', corpus, runs=12000, seed=ctx.seed, jobs=4, max_len=256,
                         sig_prefix='C14.fuzz')


def replay_coverage_guided(case):
    data = case['data']
    lines = guard('C14.decode', ilog().parse_ilog_data, D.view(data), D.shipped('mex_pte.h'))
    compare(lines, shipped_table('mex_pte.h'), data)
