"""C12 - --clean never deletes a PEL whose decoded output was not completely written.

Fault / crash point enumeration: for each generated (PEL, mode) the fault-free
run is recorded by an I/O event recorder inside the forked CLI child; then the
command is re-run once per recorded event x {ENOSPC, EIO, EPIPE, crash} with
that event failing.  Invariant checked on the disk afterwards: the input file
may be missing only if the complete expected output exists.
"""
import hashlib
import os
import resource
import tempfile

from hypothesis import strategies as st

from .. import cli
from .. import dirs as D
from .. import iofault
from .. import model as M
from ..core import Property, Violation
from .c05 import corruption_case, damage

PROP = Property(
    'C12', 'fault_enumeration',
    rule=('Generated: a PEL that is decodable / undecodable (truncated, corrupted, empty) / decodable but filtered out '
          'by the selection options x mode (-j -c with or without -o, -f -c, with or without -x). The fault-free run '
          'is recorded (open-for-write, write, writelines, flush, close of the output file; write and flush of '
          'stdout, including the interpreter\'s final flush); then EVERY recorded event is made to fail with ENOSPC, '
          'EIO or EPIPE, or to crash the process (os._exit, buffered data lost) - one run per (event, action). '
          'Real-kernel variants: stdout on /dev/full, and RLIMIT_FSIZE swept over 0..len(output) so that close() '
          'fails with EFBIG. Oracle: afterwards the input file is missing only if the complete expected output is on '
          'disk / on the real stdout; otherwise it still exists with the same sha256. Non-trivial = a fault or crash '
          'at or after the first write, or a decode-failure / filtered-out case.'),
    assumptions=['failure points are those visible at the Python level (file object and stdout operations) plus real '
                 'EFBIG / ENOSPC from the kernel; durability after power loss (fsync) is not part of the statement'],
    design_ref='4/C12')

ACTIONS = ['ENOSPC', 'EIO', 'EPIPE', 'crash']


@st.composite
def case_strategy(draw, tier):
    state = draw(st.sampled_from(['good', 'good', 'good', 'undecodable', 'filtered']))
    pel = draw(D.dir_pel(draw(st.integers(0x50000000, 0x500000FF)), selectable=True))
    data = None
    if state == 'undecodable':
        kind = draw(st.sampled_from(['empty', 'prefix', 'corrupt', 'headers']))
        enc = M.encode(pel)
        if kind == 'empty':
            data = b''
        elif kind == 'prefix':
            data = enc[:draw(st.integers(0, len(enc) - 1))]
        elif kind == 'headers':
            data = b'XX' + enc[2:]
        else:
            data = damage(draw(corruption_case(tier)))
    elif state == 'filtered':
        pel['uh']['flags'] |= 0x4000        # hidden: not selected by default
    mode = draw(st.sampled_from(['json', 'json', 'json-o', 'file', 'file', 'file-x']))
    return {'state': state, 'pel': pel, 'data': data, 'mode': mode,
            # a (truncated) output file left behind by an earlier, failed run
            'stale_output': draw(st.sampled_from([None, None, b'', b'{\n    "Private Header": {\n'])),
            'sample_actions': draw(st.lists(st.sampled_from(ACTIONS), min_size=2, max_size=2, unique=True))}


def sha(b):
    return hashlib.sha256(b).hexdigest()


def run_once(case, blob, fault=None):
    """one forked run; returns dict(input_present, input_same, out_files, stdout, events, status)"""
    with D.TempDir('c12') as top:
        d = os.path.join(top, 'logs')
        out = os.path.join(top, 'out')
        os.makedirs(d)
        os.makedirs(out)
        path = os.path.join(d, 'pel00')
        with open(path, 'wb') as f:
            f.write(blob)
        mode = case['mode']
        if mode == 'json':
            argv, outdir = ['-p', d, '-j', '-c'], d
        elif mode == 'json-o':
            argv, outdir = ['-p', d, '-j', '-c', '-o', out], out
        elif mode == 'file':
            argv, outdir = ['-f', path, '-c'], None
        else:
            argv, outdir = ['-f', path, '-c', '-x'], None
        if case.get('stale_output') is not None and outdir and case['pel'] is not None:
            with open(os.path.join(outdir, 'pel00.%08X.json' % case['pel']['ph']['eid']), 'wb') as f:
                f.write(case['stale_output'])
        logp = os.path.join(top, 'events.log')
        logfd = os.open(logp, os.O_WRONLY | os.O_CREAT | os.O_APPEND, 0o600)

        def hook():
            iofault.install(logfd, fault[0] if fault else None, fault[1] if fault else None)
        try:
            r = cli.forked(argv, hook=hook, timeout=60)
        finally:
            os.close(logfd)
        events = iofault.read_log(logp)
        present = os.path.exists(path)
        same = None
        if present:
            with open(path, 'rb') as f:
                same = f.read() == blob
        outs = {}
        if outdir:
            for n in sorted(os.listdir(outdir)):
                if n == 'pel00' or os.path.isdir(os.path.join(outdir, n)):
                    continue
                with open(os.path.join(outdir, n), 'rb') as f:
                    outs[n] = f.read()
        return {'present': present, 'same': same, 'outs': outs, 'stdout': r.stdout, 'stderr': r.err,
                'events': events, 'status': r.status}


def check_invariant(case, res, base, what):
    mode = case['mode']
    if res['present']:
        if not res['same']:
            raise Violation('C12.modified', '%s: the input file was modified' % what, sig='C12.modified')
        return
    # the input file is gone: the complete output must exist
    if case['state'] != 'good':
        raise Violation('C12.removed-without-output', '%s: the input file was removed although it %s'
                        % (what, 'cannot be decoded' if case['state'] == 'undecodable' else 'was filtered out'),
                        sig='C12.removed:%s:%s' % (mode.split('-')[0], case['state']))
    if mode.startswith('json'):
        complete = base.get('complete_outs', base['outs'])
        # only the files the fault-free run writes are compared: a stale file under another name (the damage
        # may have changed the entry id the output is named after) is not this run's output
        got = {k: v for k, v in res['outs'].items() if k in complete}
        if got != complete or not complete:
            raise Violation('C12.removed-without-output',
                            '%s: the input file was removed but the JSON output is %s (events: %s)'
                            % (what, 'missing' if not res['outs'] else 'incomplete (%d of %d bytes)'
                               % (sum(len(v) for v in res['outs'].values()), sum(len(v) for v in base['outs'].values())),
                               [e[0] + ':' + e[3] for e in res['events']][-8:]),
                            sig='C12.removed:json:incomplete-output')
    else:
        if res['stdout'] != base['stdout'] or not base['stdout']:
            raise Violation('C12.removed-without-output',
                            '%s: the input file was removed but only %d of %d bytes of the document reached stdout '
                            '(events: %s)' % (what, len(res['stdout']), len(base['stdout']),
                                              [e[0] + ':' + e[3] for e in res['events']][-8:]),
                            sig='C12.removed:file:incomplete-output')


@PROP.given('fault-points', lambda tier: case_strategy(tier), quick=160, thorough=3200, shards_quick=8)
def fault_points(case, note):
    blob = case['data'] if case['data'] is not None else M.encode(case['pel'])
    if case['state'] == 'undecodable':
        # damage does not always make a PEL undecodable: classify by an in-process decode with the
        # options the command line uses (a damaged PEL that still decodes is an ordinary good PEL)
        from ..run import decode
        o = decode(blob)
        if o.exc is None and o.text:
            case = dict(case, state='good')
            note.label('damaged-but-decodable')
        elif o.exc is None and not o.text and blob[0:2] == b'PH' and blob[48:50] == b'UH':
            case = dict(case, state='filtered')
    what0 = 'peltool %s (%s PEL)' % (case['mode'], case['state'])
    clean_case = dict(case, stale_output=None)
    ref = run_once(clean_case, blob)
    base = run_once(case, blob)
    base['complete_outs'] = ref['outs']
    check_invariant(case, base, base, what0 + ', no fault')
    if case.get('stale_output') is not None:
        note.label('stale-output-file')
    faultable = [e for e in base['events'] if e[0] != 'remove']
    n = len(faultable)
    runs = 1
    late = 0
    first_write = next((i for i, e in enumerate(faultable) if 'write' in e[0]), None)
    for k in range(n):
        for action in ACTIONS:
            res = run_once(case, blob, (k, action))
            runs += 1
            hit = [e for e in res['events'] if str(e[3]).startswith('FAULT')]
            if not hit:
                # the run took a different path before reaching event k (it is deterministic, so this means the
                # earlier events differ); still check the invariant
                pass
            check_invariant(case, res, base,
                            '%s, event %d (%s on %s) fails with %s' % (what0, k, faultable[k][0],
                                                                      os.path.basename(str(faultable[k][1])), action))
            if first_write is not None and k >= first_write:
                late += 1
    note.points = runs
    note.extra_eval += runs - 1
    note.nontrivial_points = late + (1 if case['state'] != 'good' else 0)
    note.sample = {'mode': case['mode'], 'state': case['state'], 'input_hex': blob,
                   'events_of_fault_free_run': [[e[0], os.path.basename(str(e[1])), e[2]] for e in base['events']],
                   'fault_runs': runs - 1}
    note.label('mode=' + case['mode'], 'state=' + case['state'], 'events=%d' % n)


# ---------------------------------------------------------------------------
# real kernel faults in a real interpreter
# ---------------------------------------------------------------------------

@st.composite
def kernel_case(draw, tier):
    pel = draw(D.dir_pel(draw(st.integers(0x50000000, 0x500000FF)), selectable=True))
    return {'pel': pel, 'variant': draw(st.sampled_from(['devfull', 'fsize', 'fsize', 'closed-stdout'])),
            'hexmode': draw(st.booleans()),
            'limit_permille': draw(st.integers(0, 1100)), 'optimize': draw(st.booleans()),
            'mode': draw(st.sampled_from(['json', 'json-o']))}


@PROP.given('kernel-faults', lambda tier: kernel_case(tier), quick=40, thorough=800, shards_quick=8)
def kernel_faults(case, note):
    blob = M.encode(case['pel'])
    with D.TempDir('c12k') as top:
        d = os.path.join(top, 'logs')
        out = os.path.join(top, 'out')
        os.makedirs(d)
        os.makedirs(out)
        path = os.path.join(d, 'pel00')

        def put():
            with open(path, 'wb') as f:
                f.write(blob)
        put()
        if case['variant'] == 'closed-stdout':
            # the process is started with file descriptor 1 closed: nothing can be displayed
            def pre_close():
                os.close(1)
            argv = ['-f', path, '-c'] + (['-x'] if case.get('hexmode') else [])
            r = cli.real(argv, optimize=case['optimize'], preexec_fn=pre_close, stdout=False)
            note.extra_eval += 1
            if not os.path.exists(path):
                raise Violation('C12.removed-without-output', 'python %speltool.py %s with standard output closed: the '
                                'input file was removed although nothing could be displayed; exit status %s, stderr %r'
                                % ('-O ' if case['optimize'] else '', ' '.join(argv[:1] + argv[2:]), r.status, r.err[-200:]),
                                sig='C12.removed:file:closed-stdout')
            note.label('closed-stdout')
            note.nontrivial = True
            return
        if case['variant'] == 'devfull':
            # reference: what the document looks like
            ref = cli.real(['-f', path], optimize=case['optimize'])
            if ref.status != 0 or not ref.stdout:
                raise Violation('C12.kernel', 'reference run failed: %s' % ref.brief())
            with open('/dev/full', 'wb', buffering=0) as full:
                r = cli.real(['-f', path, '-c'], optimize=case['optimize'], stdout=full)
            note.extra_eval += 1
            if not os.path.exists(path):
                raise Violation('C12.removed-without-output', 'python %speltool.py -f x -c with stdout on /dev/full '
                                '(ENOSPC): the input file was removed although nothing could be printed; exit status '
                                '%s, stderr %r' % ('-O ' if case['optimize'] else '', r.status, r.err[-200:]),
                                sig='C12.removed:file:devfull')
            note.label('devfull')
        else:
            outdir = d if case['mode'] == 'json' else out
            argv = ['-p', d, '-j', '-c'] + ([] if case['mode'] == 'json' else ['-o', out])
            ref = cli.real(argv[:3] + argv[4:], optimize=case['optimize'])
            files = [n for n in os.listdir(outdir) if n.endswith('.json')]
            if not files:
                raise Violation('C12.kernel', 'reference -j run wrote nothing: %s' % ref.brief())
            with open(os.path.join(outdir, files[0]), 'rb') as f:
                expected = f.read()
            os.unlink(os.path.join(outdir, files[0]))
            limit = len(expected) * case['limit_permille'] // 1000

            def pre():
                resource.setrlimit(resource.RLIMIT_FSIZE, (limit, limit))
            r = cli.real(argv, optimize=case['optimize'], preexec_fn=pre)
            note.extra_eval += 1
            got = b''
            p = os.path.join(outdir, files[0])
            if os.path.exists(p):
                with open(p, 'rb') as f:
                    got = f.read()
            if not os.path.exists(path) and got != expected:
                raise Violation('C12.removed-without-output', 'peltool -j -c with RLIMIT_FSIZE=%d (output needs %d '
                                'bytes, EFBIG inside close()): the input file was removed but the JSON file holds %d '
                                'bytes; stderr %r' % (limit, len(expected), len(got), r.err[-200:]),
                                sig='C12.removed:json:efbig')
            note.label('fsize-%s' % ('below' if limit < len(expected) else 'enough'))
        note.nontrivial = True


# ---------------------------------------------------------------------------
# "that same file": several files in one --json --clean run
# ---------------------------------------------------------------------------

BY_EXTS = ['', '.pel', '.bin', '.pel', '']


@st.composite
def bystander_case(draw):
    n = draw(st.integers(2, 7))
    files = []
    for i in range(n):
        state = draw(st.sampled_from(['good', 'good', 'good', 'filtered', 'junk', 'prefix']))
        pel = draw(D.dir_pel(0x50000000 + i, selectable=(state != 'filtered')))
        if state == 'filtered':
            pel['uh']['flags'] |= 0x4000
        enc = M.encode(pel)
        blob = {'junk': b'not a PEL at all', 'prefix': enc[:draw(st.integers(0, len(enc) - 1))]}.get(state, enc)
        # names chosen so that neither name order nor creation order is the order of the kinds
        name = '%s%02d%s' % (draw(st.sampled_from(['pel', 'a', 'z', 'log_'])), i, draw(st.sampled_from(BY_EXTS)))
        files.append({'name': name, 'state': state, 'eid': 0x50000000 + i, 'blob': blob})
    order = draw(st.permutations(list(range(n))))
    return {'files': files, 'create_order': list(order), 'ext': draw(st.sampled_from([None, '.pel', '.pel', '.bin'])),
            'outdir': draw(st.sampled_from(['same', 'other'])), 'sel': draw(D.selection(allow_only=False))}


@PROP.given('same-file', lambda tier: bystander_case(), quick=480, thorough=4000, shards_quick=8)
def same_file(case, note):
    """an input file may disappear only if ITS OWN document was written completely"""
    import json
    with D.TempDir('c12b') as top:
        d = os.path.join(top, 'logs')
        out = os.path.join(top, 'out') if case['outdir'] == 'other' else d
        os.makedirs(d)
        os.makedirs(out, exist_ok=True)
        for i in case['create_order']:
            f = case['files'][i]
            with open(os.path.join(d, f['name']), 'wb') as fh:
                fh.write(f['blob'])
        argv = ['-p', d, '-j', '-c'] + (['-o', out] if case['outdir'] == 'other' else [])
        if case['ext']:
            argv += ['-e', case['ext']]
        argv += D.selection_argv(case['sel'])
        r = cli.forked(argv, timeout=60)
        what = 'peltool ' + ' '.join(a.replace(top, '<top>') for a in argv)
        if 'Traceback (most recent call last)' in r.err:
            raise Violation('C12.traceback', '%s printed a traceback: %s' % (what, r.err[-400:]))
        removed = 0
        for f in case['files']:
            path = os.path.join(d, f['name'])
            if os.path.exists(path):
                with open(path, 'rb') as fh:
                    if fh.read() != f['blob']:
                        raise Violation('C12.modified', '%s: input file %s was modified' % (what, f['name']),
                                        sig='C12.modified')
                continue
            removed += 1
            # gone: its own complete document must be there
            if case['ext'] and os.path.splitext(f['name'])[1] != case['ext']:
                raise Violation('C12.removed-without-output', '%s removed %s, a file the --extension option excludes '
                                '(files: %r)' % (what, f['name'], [(x['name'], x['state']) for x in case['files']]),
                                sig='C12.same-file:excluded')
            if f['state'] in ('junk', 'prefix'):
                raise Violation('C12.removed-without-output', '%s removed %s, which cannot be decoded'
                                % (what, f['name']), sig='C12.same-file:undecodable')
            op = os.path.join(out, '%s.%08X.json' % (f['name'], f['eid']))
            try:
                with open(op) as fh:
                    doc = json.load(fh)
                ok = int(doc['Private Header']['Entry Id'], 16) == f['eid']
            except (OSError, ValueError, KeyError, TypeError):
                ok = False
            if not ok:
                raise Violation('C12.removed-without-output', '%s removed %s but there is no complete JSON document '
                                'for it (%s; output directory holds %r)' % (what, f['name'], os.path.basename(op),
                                                                            sorted(os.listdir(out))[:12]),
                                sig='C12.same-file:no-output')
        kinds = {f['state'] for f in case['files']}
        note.label('removed=%s' % (removed if removed < 3 else '3+'), 'ext' if case['ext'] else 'no-ext')
        note.nontrivial = removed >= 1 and len(kinds) >= 2 and \
            (bool(case['ext']) and any(os.path.splitext(f['name'])[1] != case['ext'] for f in case['files']) or
             bool(kinds & {'junk', 'prefix', 'filtered'}))
