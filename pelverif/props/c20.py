"""C20 - hardware-diagnostics signatures and register dumps are decoded field-exactly."""
import json
import os
import re
import shutil
import struct
import tempfile

from hypothesis import strategies as st

from .. import model as M
from .. import strategies as S
from ..core import Property, Violation
from ..run import R, guard, must_decode, make_config, need
from .c06 import json_docs

PROP = Property(
    'C20', 'exploration',
    rule=('Generated: 12-byte signatures (three 32-bit words, uniform + boundary values, upper/lower-case spelling), '
          'signature lists of 0..40, register dumps of 0..5 chips x 0..8 registers x data sizes 1..255, scratch '
          'register and call-out FFDC payloads, with chip-data files generated per case: absent / present for the '
          'model-EC / present but missing type, desc, signatures, registers, attn_types, the id, the bit or the '
          'instance. Entry points: ParserData.get_signature, udparsers.oe500 (subtypes 1-5), srcparsers.oe500 and '
          'parsePEL for BD..E5.. SRCs. Oracle: reference slicing of the words + strings rebuilt from the generated '
          'data file with the documented fall-backs. Non-trivial = a data file with at least one hit and one miss in '
          'the same case, or a register dump with >= 2 chips and a data size that is not a multiple of 2.'),
    assumptions=['chip data files have the layout read by ParserData (model_ec.id/type/desc, attn_types, signatures, '
                 'registers; lower-case hex keys); they are served by pointing pel.hwdiags.data.__file__ at a '
                 'temporary directory in the harness process',
                 'register data size 0 cannot be framed (zero-length read) and is outside the quantifier',
                 'string formats of chip/signature descriptions are those pinned by the repo\'s unit tests'],
    design_ref='4/C20')


class ChipData:
    """serves generated chip data files to ParserData for one case"""

    def __init__(self, files):
        self.files = files
        self.dir = None
        self.old = None

    def __enter__(self):
        import pel.hwdiags.data as dat
        self.dir = tempfile.mkdtemp(prefix='c20', dir='/dev/shm' if os.path.isdir('/dev/shm') else None)
        for i, f in enumerate(self.files):
            with open(os.path.join(self.dir, 'chip_data_%d.json' % i), 'w') as fh:
                json.dump(f, fh)
        self.old = dat.__file__
        dat.__file__ = os.path.join(self.dir, '__init__.py')
        return self

    def __exit__(self, *a):
        import pel.hwdiags.data as dat
        dat.__file__ = self.old
        shutil.rmtree(self.dir, ignore_errors=True)


def lookup(files, model_ec):
    for f in files:
        if f['model_ec']['id'] == model_ec.lower():
            return f
    return None


def ref_signature(files, a, b, c, hits):
    """a, b, c: ints. Returns the three expected strings."""
    model = '%08x' % a
    chip_pos, node, attn = b >> 16, (b >> 8) & 0xFF, b & 0xFF
    sig_id, inst, bit = '%04x' % (c >> 16), (c >> 8) & 0xFF, c & 0xFF
    f = lookup(files, model)
    ctype, cdesc = 'unknown', model.upper()
    if f is not None:
        if 'type' in f['model_ec']:
            ctype = f['model_ec']['type']
            hits.append('type')
        else:
            hits.append('miss')
        if 'desc' in f['model_ec']:
            cdesc = f['model_ec']['desc']
    chip = 'node %d %s %d (%s)' % (node, ctype, chip_pos, cdesc)
    name, desc = 'id:' + sig_id.upper(), ''
    if f is not None and sig_id in f.get('signatures', {}):
        name = f['signatures'][sig_id][0]
        hits.append('sig')
        if str(bit) in f['signatures'][sig_id][1]:
            desc = f['signatures'][sig_id][1][str(bit)]
            hits.append('bit')
        else:
            hits.append('miss')
    elif f is not None:
        hits.append('miss')
    sig = '%s(%d)[%s] %s' % (name, inst, bit, desc)
    at = str(attn)
    if f is not None and at in f.get('attn_types', {}):
        at = f['attn_types'][at]
        hits.append('attn')
    elif f is not None:
        hits.append('miss')
    return {'Chip Desc': chip, 'Signature': sig, 'Attn Type': at}


# ---------------------------------------------------------------------------
# generators
# ---------------------------------------------------------------------------

word = st.one_of(S.uint(32), st.integers(0, 0xFFFFFFFF))
NAMES = ['EQ_LFIR', 'TP_LOCAL_FIR', 'MC_DSTL_FIR', 'A_VERY_LONG_REGISTER_NAME_OVER_25_CHARS', 'x', 'PAU "q": y']


@st.composite
def chip_file(draw, model, sig_ids, reg_ids, attns, bits, insts):
    me = {'id': '%08x' % model}
    if draw(st.integers(0, 4)):
        me['type'] = draw(st.sampled_from(['proc', 'ocmb', 'P10 2.0']))
    if draw(st.integers(0, 4)):
        me['desc'] = draw(st.sampled_from(['P10 2.0', 'Explorer 2.0', 'Odyssey']))
    f = {'model_ec': me}
    if draw(st.integers(0, 5)):
        f['attn_types'] = {str(a): draw(st.sampled_from(['CS', 'UCS', 'RE', 'SPA', 'HA']))
                           for a in attns if draw(st.booleans())}
    if draw(st.integers(0, 5)):
        sigs = {}
        for s in sig_ids:
            if draw(st.booleans()):
                sigs['%04x' % s] = [draw(st.sampled_from(NAMES)),
                                    {str(b): 'bit %d desc' % b for b in bits if draw(st.booleans())}]
        f['signatures'] = sigs
    if draw(st.integers(0, 5)):
        regs = {}
        for r in reg_ids:
            if draw(st.booleans()):
                regs['%06x' % r] = [draw(st.sampled_from(NAMES)),
                                    {str(i): '%x' % draw(st.one_of(st.integers(0, 0xFFFFFFFF),
                                                                   st.sampled_from([0x800000030C010C3F, 0xFFFFFFFF,
                                                                                    0x100000000, 0xFFFFFFFFFFFFFFFF])))
                                     for i in insts
                                     if draw(st.booleans())}]
        f['registers'] = regs
    return f


@st.composite
def sig_case(draw):
    n = draw(st.integers(0, 12))
    sigs = [[draw(word), draw(word), draw(word)] for _ in range(n)]
    if sigs and draw(st.booleans()):
        # share the model/EC and the signature id so that one data file serves several
        for s in sigs[1:]:
            if draw(st.booleans()):
                s[0] = sigs[0][0]
            if draw(st.booleans()):
                s[2] = (sigs[0][2] & 0xFFFF0000) | (s[2] & 0xFFFF)
    models = sorted({s[0] for s in sigs})[:3]
    files = []
    for m in models:
        if draw(st.integers(0, 3)):
            mine = [s for s in sigs if s[0] == m]
            files.append(draw(chip_file(m, sorted({s[2] >> 16 for s in mine}), [],
                                        sorted({s[1] & 0xFF for s in mine}), sorted({s[2] & 0xFF for s in mine}), [])))
    if draw(st.integers(0, 4)) == 0:
        files.append({'model_ec': {'id': 'deadbeef', 'type': 'other', 'desc': 'unrelated'}})
    return {'sigs': sigs, 'files': files, 'upper': draw(st.booleans()), 'extra': draw(st.binary(max_size=5)),
            'wc': draw(st.sampled_from([9, 9, 9, 8, 7, 5, 1])), 'suffix': draw(st.sampled_from(['10', '00', 'FF'])),
            'plugins': True}


def spell(w, upper):
    return ('%08X' if upper else '%08x') % w


@PROP.given('signatures', lambda tier: sig_case(), quick=4000, thorough=60000, shards_quick=8)
def signatures(case, note):
    from pel.hwdiags.parserdata import ParserData
    import udparsers.oe500.oe500 as ud
    import srcparsers.oe500.oe500 as srcp
    files, sigs = case['files'], case['sigs']
    hits = []
    with ChipData(files):
        want = [ref_signature(files, a, b, c, hits) for a, b, c in sigs]
        # 1. direct
        for (a, b, c), w in zip(sigs, want):
            got = guard('C20.signature', ParserData().get_signature, spell(a, case['upper']),
                        spell(b, not case['upper']), spell(c, case['upper']))
            if dict(got) != w:
                raise Violation('C20.signature', 'get_signature(%08X, %08X, %08X) shows %r, expected %r'
                                % (a, b, c, dict(got), w), sig='C20.signature')
        # 2. signature list section
        data = struct.pack('>I', len(sigs)) + b''.join(struct.pack('>III', *s) for s in sigs) + case['extra']
        out = json.loads(guard('C20.siglist', ud.parseUDToJson, 1, 1, memoryview(data)))
        if out != {'Signature List': want}:
            raise Violation('C20.siglist', 'signature list of %d entries shows %r, expected %r'
                            % (len(sigs), out, want), sig='C20.siglist')
        # 3. SRC parser + 4. end to end through parsePEL
        if sigs:
            a, b, c = sigs[0]
            ref = 'BD8DE5' + case['suffix']
            out = json.loads(guard('C20.src', srcp.parseSRCToJson, ref, '00000000', '00000000', '00000000',
                                   '00000000', spell(a, True), spell(b, True), spell(c, True), '00000000'))
            if out.get('Signature Description') != want[0]:
                raise Violation('C20.src', 'SRC parser shows %r for words 6..8 = %08X %08X %08X, expected %r'
                                % (out.get('Signature Description'), a, b, c, want[0]), sig='C20.src')
            words = [0x55, 1, 2, 3, a, b, c, 9]
            wc = case['wc']
            src = M.default_src(words=words, wc=wc, ascii=M.pad_text(ref, 32, b' '))
            pel = M.minimal_pel([src], ph=M.default_ph(creator=ord('O')))
            R.parse_user_data  # noqa (module import check)
            from ..run import reset_caches
            reset_caches()
            o = must_decode(M.encode(pel), make_config(every_pel=True), oracle='C20.decode')
            note.extra_eval += 1
            if o.doc is None:
                raise Violation('C20.json', 'output is not JSON')
            eff = [w if (i + 2) <= wc else 0 for i, w in enumerate(words)]
            hits2 = []
            want_e2e = ref_signature(files, eff[4], eff[5], eff[6], hits2)
            det = need(need(o.doc, 'Primary SRC'), 'SRC Details', 'Primary SRC')
            if need(det, 'Signature Description', 'SRC Details') != want_e2e:
                raise Violation('C20.e2e', 'parsePEL shows signature %r for an SRC with word count %d and words 6..8 = '
                                '%08X %08X %08X, expected %r' % (det.get('Signature Description'), wc, a, b, c, want_e2e),
                                sig='C20.e2e')
    note.nontrivial = bool(files) and ('miss' in hits) and any(h != 'miss' for h in hits)
    note.label('files=%d' % len(files), 'sigs=%s' % (len(sigs) if len(sigs) < 3 else '3+'))
    if 'bit' in hits:
        note.label('bit-desc-hit')


# ---------------------------------------------------------------------------
# register dumps
# ---------------------------------------------------------------------------

@st.composite
def regdump_case(draw):
    nchips = draw(st.integers(0, 5))
    chips = []
    # the same register id / instance occurs on chips of different models (and on chips without data)
    id_pool = draw(st.lists(st.integers(0, 0xFFFFFF), min_size=1, max_size=3))
    inst_pool = draw(st.lists(S.byte, min_size=1, max_size=2))
    model_pool = draw(st.lists(word, min_size=1, max_size=3, unique=True))
    for _ in range(nchips):
        model = draw(st.one_of(st.sampled_from(model_pool), word))
        regs = []
        for _ in range(draw(st.integers(0, 8))):
            size = draw(st.one_of(st.integers(1, 255), st.sampled_from([1, 2, 3, 7, 8, 9, 16, 255])))
            regs.append({'id': draw(st.one_of(st.sampled_from(id_pool), st.integers(0, 0xFFFFFF))),
                         'inst': draw(st.one_of(st.sampled_from(inst_pool), S.byte)),
                         'data': draw(st.binary(min_size=size, max_size=size))})
        chips.append({'model': model, 'pos': draw(S.uint(16)), 'node': draw(S.byte), 'regs': regs})
    files = []
    for ch in chips[:4]:
        if draw(st.integers(0, 2)):
            f = draw(chip_file(ch['model'], [], sorted({r['id'] for r in ch['regs']}), [], [],
                               sorted({r['inst'] for r in ch['regs']})))
            # names differ per model so that an answer taken from another model's file is visible
            for rid, v in f.get('registers', {}).items():
                v[0] = '%s_%04X' % (v[0][:12], ch['model'] & 0xFFFF)
            files.append(f)
    # files must have distinct model ids
    seen, uniq = set(), []
    for f in files:
        if f['model_ec']['id'] not in seen:
            seen.add(f['model_ec']['id'])
            uniq.append(f)
    return {'chips': chips, 'files': uniq, 'extra': draw(st.binary(max_size=4))}


REG_LINE = re.compile(r'^\s*(.*?)\s*\((0x[0-9A-Fa-f]+)\)\s*(.*)$')


@PROP.given('register-dumps', lambda tier: regdump_case(), quick=3000, thorough=40000, shards_quick=8)
def register_dumps(case, note):
    import udparsers.oe500.oe500 as ud
    chips, files = case['chips'], case['files']
    data = struct.pack('>I', len(chips))
    for ch in chips:
        data += struct.pack('>IHBI', ch['model'], ch['pos'], ch['node'], len(ch['regs']))
        for r in ch['regs']:
            data += r['id'].to_bytes(3, 'big') + bytes([r['inst'], len(r['data'])]) + r['data']
    data += case['extra']
    hits = []
    with ChipData(files):
        out = json.loads(guard('C20.regdump', ud.parseUDToJson, 2, 1, memoryview(data)))
    lines = need(out, 'Register Dump', 'register dump section')
    want_n = len(chips) + sum(len(c['regs']) for c in chips)
    if not isinstance(lines, list) or len(lines) != want_n:
        raise Violation('C20.regdump', 'register dump has %s lines for %d chips and %d registers'
                        % (len(lines) if isinstance(lines, list) else '?', len(chips), want_n - len(chips)),
                        sig='C20.regdump.count')
    i = 0
    widths = set()
    for ch in chips:
        model = '%08x' % ch['model']
        f = lookup(files, model)
        ctype = f['model_ec'].get('type', 'unknown') if f else 'unknown'
        cdesc = f['model_ec'].get('desc', model.upper()) if f else model.upper()
        desc = 'node %d %s %d (%s)' % (ch['node'], ctype, ch['pos'], cdesc)
        line = lines[i]
        i += 1
        if not line.startswith(desc + ' ') or line[len(desc) + 1:].strip('*') != '':
            raise Violation('C20.regdump', 'chip line %r, expected %r padded with *' % (line, desc),
                            sig='C20.regdump.chip')
        widths.add(len(line) if len(desc) + 1 <= 60 else None)
        for r in ch['regs']:
            rid = '%06x' % r['id']
            name, addr = 'id:%s inst:%d' % (rid.upper(), r['inst']), 0
            if f and rid in f.get('registers', {}):
                name = f['registers'][rid][0]
                hits.append('reg')
                if str(r['inst']) in f['registers'][rid][1]:
                    addr = int(f['registers'][rid][1][str(r['inst'])], 16)
                    hits.append('addr')
                else:
                    hits.append('miss')
            elif f:
                hits.append('miss')
            line = lines[i]
            i += 1
            m = REG_LINE.match(line)
            if not m:
                raise Violation('C20.regdump', 'register line %r is not "<name> (<address>) <data>"' % line,
                                sig='C20.regdump.shape')
            gname, gaddr, gdata = m.group(1), m.group(2), m.group(3)
            if gname != name[:25].strip():
                raise Violation('C20.regdump', 'register %s inst %d is named %r, expected %r'
                                % (rid, r['inst'], gname, name[:25].strip()), sig='C20.regdump.name')
            if int(gaddr, 16) != addr:
                raise Violation('C20.regdump', 'register %s inst %d has address %s, expected 0x%08X'
                                % (rid, r['inst'], gaddr, addr), sig='C20.regdump.addr')
            if gdata.replace(' ', '').lower() != r['data'].hex():
                raise Violation('C20.regdump', 'register %s inst %d shows data %r, encoded %s'
                                % (rid, r['inst'], gdata, r['data'].hex()), sig='C20.regdump.data')
    widths.discard(None)
    if len(widths) > 1:
        raise Violation('C20.regdump', 'chip lines are padded to different widths %r' % sorted(widths),
                        sig='C20.regdump.width')
    odd = any(len(r['data']) % 2 for c in chips for r in c['regs'])
    note.nontrivial = (len(chips) >= 2 and odd) or (bool(files) and 'miss' in hits and any(h != 'miss' for h in hits))
    note.label('chips=%s' % (len(chips) if len(chips) < 3 else '3+'), 'files=%d' % len(files))


# ---------------------------------------------------------------------------
# scratch registers, scratch signature, call-out FFDC
# ---------------------------------------------------------------------------

@st.composite
def misc_case(draw):
    return {'cfam_addr': draw(word), 'cfam_val': draw(word), 'scom_addr': draw(S.uint(64)),
            'scom_val': draw(S.uint(64)), 'chip': draw(word), 'sig': draw(word),
            'ffdc': draw(json_docs(8)), 'nuls': draw(st.integers(0, 3)), 'extra': draw(st.binary(max_size=6)),
            'other_subtype': draw(st.one_of(st.integers(6, 255), st.just(0)))}


@PROP.given('scratch-and-ffdc', lambda tier: misc_case(), quick=2400, thorough=30000, shards_quick=8)
def scratch_and_ffdc(case, note):
    import udparsers.oe500.oe500 as ud
    d = struct.pack('>IIQQ', case['cfam_addr'], case['cfam_val'], case['scom_addr'], case['scom_val']) + case['extra']
    out = json.loads(guard('C20.scratch', ud.parseUDToJson, 4, 1, memoryview(d)))
    regs = need(out, 'Hostboot Scratch Registers', 'scratch register section')
    pairs = {int(k, 16): int(v, 16) for k, v in regs.items()} if isinstance(regs, dict) else None
    want = {case['cfam_addr']: case['cfam_val']}
    if case['scom_addr'] == case['cfam_addr']:
        # both addresses spell differently (8 / 16 digits); as numbers they collide
        want = None
    if want is not None:
        want[case['scom_addr']] = case['scom_val']
        if pairs != want:
            raise Violation('C20.scratch', 'scratch registers shown as %r, encoded %r' % (regs, want), sig='C20.scratch')
    d = struct.pack('>II', case['chip'], case['sig']) + case['extra']
    out = json.loads(guard('C20.scratch-sig', ud.parseUDToJson, 5, 1, memoryview(d)))
    s = need(out, 'Scratch Register Error Signature', 'scratch signature section')
    if int(need(s, 'Chip ID'), 16) != case['chip'] or int(need(s, 'Signature ID'), 16) != case['sig']:
        raise Violation('C20.scratch-sig', 'scratch signature shown as %r, encoded chip %08X signature %08X'
                        % (s, case['chip'], case['sig']), sig='C20.scratch-sig')
    # the section holds JSON text as UTF-8: with \\u escapes or with the characters themselves
    raw = json.dumps(case['ffdc'], ensure_ascii=(case['nuls'] % 2 == 0)).encode('utf-8') + b'\x00' * case['nuls']
    out = json.loads(guard('C20.ffdc', ud.parseUDToJson, 3, 1, memoryview(raw)))
    if out != {'Callout List FFDC': case['ffdc']}:
        raise Violation('C20.ffdc', 'call-out FFDC shown as %r, encoded %r' % (out, case['ffdc']), sig='C20.ffdc')
    note.extra_eval += 2
    note.nontrivial = True
