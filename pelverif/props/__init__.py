"""One module per property: c01.py .. c20.py, each defining PROP."""
import importlib

from ..core import HarnessError

_cache = {}


def load_property(pid):
    pid = pid.upper()
    if pid not in _cache:
        try:
            mod = importlib.import_module('.%s' % pid.lower(), __name__)
        except ModuleNotFoundError as e:
            if e.name and e.name.endswith(pid.lower()):
                raise HarnessError('no check is implemented for property %s' % pid)
            raise
        _cache[pid] = mod.PROP
        mod.PROP.module = mod
    return _cache[pid]


def custom_replay(prop, facet, case):
    fn = getattr(prop.module, 'replay_' + facet.name.replace('-', '_'), None)
    if fn is None:
        raise HarnessError('facet %s/%s has no replay function' % (prop.id, facet.name))
    return fn(case)
