"""C08 - list, count and display-all agree on the same PELs in file-name order."""
import os

from hypothesis import strategies as st

from .. import cli
from .. import dirs as D
from .. import model as M
from ..core import Property, Violation
from ..run import R, need
from ..util import parse_default_dump
from .c13 import split_blocks

PROP = Property(
    'C08', 'exploration',
    rule=('Generated: directories of 0..12 well-formed PELs with distinct entry ids over the whole 32-bit range, '
          'with/without a primary SRC, varied severity/action flags and creators; file names [A-Za-z0-9_]{1,12} with '
          '0-2 extensions from a pool so that --extension splits the set; selection options as in C07; -r, -e, -x. '
          'Each case runs peltool -n, -l and -a (forked CLI; one case in ten also in a real interpreter). Oracle: '
          'count == len(list) == len(all); the entry-id sequences of -l, of -a and of the reference (names sorted by '
          'code point, filtered by extension and the C07 reference predicate) are equal, reversed with -r; every -l '
          'field equals the corresponding field of the -a document; with -x the blocks parse back to the files. '
          'Non-trivial = >= 3 selected PELs out of >= 5 files with >= 1 filtered out, or -r/-e active with >= 2 '
          'survivors.'),
    assumptions=['entry ids are distinct and all files are well-formed PELs (other cases belong to C09)',
                 'the selection reference predicate is the one verified under C07'],
    design_ref='4/C08')


@st.composite
def case_strategy(draw, tier):
    n = draw(st.one_of(st.integers(0, 12), st.integers(5, 12)))
    eids = D.distinct_eids(draw, n)
    names = draw(st.lists(D.file_name(), min_size=n, max_size=n, unique=True))
    pels = [draw(D.dir_pel(e, selectable=draw(st.sampled_from([True, True, True, None])))) for e in eids]
    for p in pels:
        if draw(st.integers(0, 7)) == 0:
            # a big section in front of (or instead of) the primary SRC: the summary still has to walk past it
            big = {'k': 'UD', 'ver': 1, 'sub': 2, 'comp': 0x1234,
                   'data': bytes(draw(st.sampled_from([4000, 5000, 9000, 20000, 65000])))}
            p['secs'].insert(draw(st.integers(0, 1)) if p['secs'] else 0, big)
            if draw(st.booleans()):
                p['secs'] = [s for s in p['secs'] if not (s['k'] == 'SRC' and s['id'] == 'PS')]
    return {'files': [[nm, p] for nm, p in zip(names, pels)], 'sel': draw(D.selection()),
            'rev': draw(st.booleans()), 'ext': draw(st.sampled_from([None, None, None, None, '.pel', '.txt', '.PEL', '.none'])),
            'hex': draw(st.integers(0, 3)) == 0, 'real': draw(st.integers(0, 9)) == 0}


def eid_of(pel):
    return pel['ph']['eid']


@PROP.given('modes-agree', lambda tier: case_strategy(tier), quick=800, thorough=8000, shards_quick=8)
def modes_agree(case, note):
    files = case['files']
    groups = R.pel_values.severityGroupValues
    with D.TempDir('c08') as d:
        blobs = {}
        for nm, p in files:
            blobs[nm] = M.encode(p)
        D.write_files(d, blobs)
        common = ['-p', d] + D.selection_argv(case['sel'])
        if case['ext']:
            common += ['-e', case['ext']]
        order = ['-r'] if case['rev'] else []
        run = cli.real if case['real'] else cli.forked
        # reference: sorted names, extension filter, selection predicate
        names = sorted(nm for nm, _ in files)
        if case['ext']:
            names = [nm for nm in names if D.ref_ext(nm) == case['ext']]
        bymodel = dict((nm, p) for nm, p in files)
        chosen = [nm for nm in names if D.selected(bymodel[nm], case['sel'], groups)]
        want_ids = [eid_of(bymodel[nm]) for nm in chosen]
        shown_order = list(reversed(want_ids)) if case['rev'] else want_ids

        rn = run(common + ['-n'] + order)
        cnt = need(D.parse_json_out(rn, 'peltool -n', 'C08'), 'Number of PELs found', '-n output')
        rl = run(common + ['-l'] + order)
        lst = D.parse_json_out(rl, 'peltool -l', 'C08')
        ra = run(common + ['-a'] + order)
        allp = D.parse_json_out(ra, 'peltool -a', 'C08')
        note.extra_eval += 2
        if not isinstance(lst, dict) or not isinstance(allp, list):
            raise Violation('C08.shape', '-l gives %s, -a gives %s' % (type(lst).__name__, type(allp).__name__))
        l_ids = [int(k, 16) for k in lst]
        a_ids = [int(need(need(doc, 'Private Header'), 'Entry Id'), 16) for doc in allp]
        if not (cnt == len(lst) == len(allp)):
            raise Violation('C08.counts', 'options %r: --show-pel-count says %r, --list has %d entries, --all-pels '
                            'has %d documents' % (common[2:] + order, cnt, len(lst), len(allp)), sig='C08.counts')
        if l_ids != shown_order or a_ids != shown_order:
            raise Violation('C08.order', 'options %r: --list shows %r, --all-pels shows %r, file-name order of the '
                            'selected PELs is %r' % (common[2:] + order, ['%08X' % i for i in l_ids],
                                                     ['%08X' % i for i in a_ids], ['%08X' % i for i in shown_order]),
                            sig='C08.order')
        # each --list entry equals the corresponding fields of the full decode
        for (k, entry), doc in zip(lst.items(), allp):
            ph, uh = need(doc, 'Private Header'), need(doc, 'User Header')
            pairs = [('PLID', need(ph, 'Platform Log Id')), ('CreatorID', need(ph, 'Creator Subsystem')),
                     ('Subsystem', need(uh, 'Subsystem')), ('Commit Time', need(ph, 'Committed at')),
                     ('Sev', need(uh, 'Event Severity')), ('CompID', need(ph, 'Created by'))]
            if 'Primary SRC' in doc:
                pairs.append(('SRC', need(doc['Primary SRC'], 'Reference Code')))
            elif 'SRC' in entry:
                raise Violation('C08.fields', '--list entry %s shows SRC %r, the PEL has no primary SRC'
                                % (k, entry['SRC']), sig='C08.fields:SRC')
            if k.lower() != need(ph, 'Entry Id').lower():
                raise Violation('C08.fields', '--list key %r, full decode Entry Id %r' % (k, ph['Entry Id']),
                                sig='C08.fields:key')
            for f, v in pairs:
                if need(entry, f, '--list entry') != v:
                    raise Violation('C08.fields', '--list entry %s: %s is %r, the full decode shows %r'
                                    % (k, f, entry[f], v), sig='C08.fields:%s' % f)
        if case['hex']:
            for mode in ('-l', '-a'):
                rx = run(common + [mode, '-x'] + order)
                note.extra_eval += 1
                if rx.status != 0:
                    raise Violation('C08.hex', 'peltool %s -x failed: %s' % (mode, rx.brief()))
                got = [parse_default_dump(b, '--hex block') for b in split_blocks(rx.out)]
                want = [blobs[nm] for nm in (reversed(chosen) if case['rev'] else chosen)]
                if got != want:
                    raise Violation('C08.hex', 'peltool %s -x shows %d blocks %r, expected the %d selected files in '
                                    'order' % (mode, len(got), [g[:8].hex() for g in got], len(want)), sig='C08.hex')
        filtered = len(files) - len(chosen)
        note.nontrivial = (len(chosen) >= 3 and len(files) >= 5 and filtered >= 1) or \
            ((case['rev'] or case['ext']) and len(chosen) >= 2)
        note.label('files=%s' % (len(files) if len(files) < 5 else '5+'),
                   'selected=%s' % (len(chosen) if len(chosen) < 3 else '3+'))
        for flag, lab in ((case['rev'], 'reverse'), (case['ext'], 'extension'), (case['hex'], 'hex'),
                          (case['real'], 'real-subprocess')):
            if flag:
                note.label(lab)
