"""C11 - only delete options remove files, and only the files they name."""
import json
import os

from hypothesis import strategies as st

from .. import cli
from .. import dirs as D
from .. import model as M
from .. import strategies as S
from ..core import Property, Violation
from ..run import decode, make_config
from .c05 import random_bytes

PROP = Property(
    'C11', 'exploration',
    rule=('Generated: directory trees - top-level regular files (well-formed PELs, junk, names containing / not '
          'containing the id used in the command, several names containing the same id), nested directories '
          '(archive/ with PEL-named files, two levels deep), an output directory inside, outside or equal to the PEL '
          'directory - and one command out of every CLI mode (-l -a -n -i --bmc-id --plid --src --src-exclude -f, '
          'each with optional -x -r -e and selection options; -j [-o]; -d E / --delete E / --delete=E in all id spellings incl. invalid lengths, the empty string, a bare 0x and a blank; '
          '-D). Oracle: recursive snapshot (path, type, size, sha256) before/after. Non-trivial = tree with >= 2 '
          'levels and >= 2 candidate files for -d, or any -D / -j run on a tree with nested PEL files, or -j into the '
          'PEL directory itself.'),
    assumptions=['symbolic links are not generated', 'file names carry ids in upper case as the BMC writes them',
                 '--clean is the subject of C12 and not used here'],
    design_ref='4/C11')

READ_MODES = ['-l', '-a', '-n', '-i', '--bmc-id', '--plid', '--src', '--src-exclude', '-f']


@st.composite
def tree(draw):
    n = draw(st.integers(0, 6))
    eids = draw(st.lists(st.one_of(st.integers(0x50000000, 0x5000000F), S.uint(32)), min_size=n, max_size=n,
                         unique=True))
    files = {}
    pels = []
    named = []
    for i, e in enumerate(eids):
        p = draw(D.dir_pel(e, selectable=draw(st.booleans()) or None, plid=0x50000001))
        pels.append(p)
        style = draw(st.sampled_from(['bmc', 'bmc', 'plain', 'ext']))
        if i == 0:
            # the first PEL is the preferred target of -i / --bmc-id / -d: its name carries its id, it is
            # displayable and has the BMC id the commands ask for
            style = draw(st.sampled_from(['bmc', 'ext']))
            p['ph']['obmc'] = 4660
            if draw(st.integers(0, 3)) != 0:
                p['uh']['sev'], p['uh']['flags'] = 0x40, 0xA800
        name = {'bmc': '%016d_%08X' % (1718273645091827 + i, e), 'plain': 'pel%02d' % i,
                'ext': 'log_%08X.pel' % e}[style]
        files[name] = M.encode(p)
        named.append((name, e))
    target = draw(st.one_of(st.sampled_from(eids) if eids else st.just(0x50000001), st.just(0x50000001),
                            st.just(eids[0]) if eids else st.just(0x50000001),
                            st.just(eids[0]) if eids else st.just(0x50000001)))
    # one tree in six: the id asked for exists ONLY below the directory (an archived log)
    nested_only = draw(st.integers(0, 5)) == 0
    if nested_only:
        target = draw(st.sampled_from([0x6000ABCD, 0x00000007, 0x5FFFFFFF]))
        if target in eids:
            nested_only = False
    tid = '%08X' % target
    # more names that contain the target id, and junk
    for k in range(0 if nested_only else draw(st.integers(0, 2))):
        files['copy%d_%s.bak' % (k, tid)] = draw(st.one_of(random_bytes, st.just(b'')))
    for k in range(draw(st.integers(0, 2))):
        files['junk%d' % k] = draw(random_bytes)
    # nested directories; PEL-named files inside must never be touched
    if draw(st.booleans()) or nested_only:
        files['archive/'] = None
        for k in range(draw(st.integers(0, 2))):
            e = 0x70000000 + k
            files['archive/%016d_%08X' % (1618273645091827 + k, e)] = M.encode(
                draw(D.dir_pel(e, selectable=True, plid=0x50000001)))
        if draw(st.booleans()) or nested_only:
            files['archive/%016d_%s' % (1618273645099999, tid)] = M.encode(
                draw(D.dir_pel(target, selectable=True, plid=0x50000001)))
        if draw(st.booleans()):
            files['archive/deeper/'] = None
            files['archive/deeper/x_%s' % tid] = b'nested'
    if draw(st.integers(0, 3)) == 0:
        files['emptydir/'] = None
    # names that shell-style matching treats specially
    for k in range(0 if nested_only else draw(st.integers(0, 2))):
        files[draw(st.sampled_from(['.hidden_%s', '.%s.pel', '[x]_%s', 'st*r_%s', 'q?_%s'])) % tid] = \
            draw(st.one_of(random_bytes, st.just(b'')))
    # files that already sit in the --json output directory next to the names the run will write
    # (<pel file>.<entry id>.json + a suffix): scratch, backup and editor copies of somebody else
    neighbours = []
    if named and draw(st.integers(0, 2)) == 0:
        for name, e in draw(st.lists(st.sampled_from(named), min_size=1, max_size=3, unique=True)):
            neighbours.append('%s.%08X.json%s' % (name, e, draw(st.sampled_from(['.tmp', '.bak', '~', '.part', '.new',
                                                                                  '.tmp', '.1']))))
    return {'files': files, 'target': target, 'n_pels': n, 'neighbours': neighbours,
            'dirname': draw(st.sampled_from(['logs', 'logs', 'logs[1]', 'lo*gs', 'log?', '.logs', 'lo gs'])),
            # how the directory is spelled on the command line
            'spelling': draw(st.sampled_from(['plain', 'plain', 'trailing-slash', 'dot', 'dotdot', 'relative',
                                              'symlink-dotdot', 'symlink']))}


@st.composite
def command(draw):
    kind = draw(st.sampled_from(['read', 'read', 'json', 'delete', 'delete', 'delete-all']))
    c = {'kind': kind}
    if kind == 'read':
        c['mode'] = draw(st.sampled_from(READ_MODES))
        c['hex'] = draw(st.booleans())
        c['rev'] = draw(st.booleans())
        c['sel'] = draw(D.selection())
        c['ext'] = draw(st.sampled_from([None, None, '.pel']))
        # --clean is only meaningful with --json / --file; every other mode must stay read-only with it
        c['clean'] = c['mode'] != '-f' and draw(st.integers(0, 1 if c['mode'] in ('-i', '--bmc-id') else 2)) == 0
    elif kind == 'json':
        c['out'] = draw(st.sampled_from(['same', 'inside', 'outside', 'none', 'missing']))
        c['clean'] = draw(st.integers(0, 2)) == 0
        c['sel'] = draw(D.selection())
        c['ext'] = draw(st.sampled_from([None, None, '.pel']))
    elif kind == 'delete':
        c['spell'] = draw(st.sampled_from(['plain', '0x', '0Xlower', 'lower', 'short', 'long', 'plain', 'lower',
                                           'empty', 'only-0x', 'blank']))
        c['optform'] = draw(st.sampled_from(['-d', '-d', '--delete', '--delete=']))
    return c


def draw_clean_spelling(n):
    return '-c' if n % 2 else '--clean'


def spell(v, how):
    s = '%08X' % v
    return {'plain': s, '0x': '0x' + s, '0Xlower': '0X' + s.lower(), 'lower': s.lower(), 'short': s[1:],
            'long': s + '0', 'empty': '', 'only-0x': '0x', 'blank': ' '}[how]


INVALID_SPELLINGS = ('short', 'long', 'empty', 'only-0x', 'blank')


def diff(before, after):
    removed = sorted(set(before) - set(after))
    created = sorted(set(after) - set(before))
    modified = sorted(k for k in before if k in after and before[k] != after[k])
    return removed, created, modified


@PROP.given('tree-snapshots', lambda tier: st.tuples(tree(), command()), quick=1600, thorough=16000, shards_quick=8)
def tree_snapshots(case, note):
    t, c = case
    with D.TempDir('c11') as top:
        # the real directory lives under <top>/real/; a decoy of the same name directly under <top> is what a
        # purely textual normalisation of  <top>/link/../<name>  would point at (link -> real/sub)
        real_parent = os.path.join(top, 'real')
        os.makedirs(os.path.join(real_parent, 'sub'))
        os.symlink(os.path.join(real_parent, 'sub'), os.path.join(top, 'link'))
        d = os.path.join(real_parent, t.get('dirname', 'logs'))
        os.makedirs(d)
        os.symlink(d, os.path.join(top, 'direct-link'))
        decoy = os.path.join(top, t.get('dirname', 'logs'))
        os.makedirs(decoy, exist_ok=True)
        for nm in ('decoy_%08X' % t['target'], 'decoy_other'):
            with open(os.path.join(decoy, nm), 'wb') as fh:
                fh.write(b'decoy')
        sp = t.get('spelling', 'plain')
        dname = t.get('dirname', 'logs')
        d_arg, run_cwd = {
            'plain': (d, None), 'trailing-slash': (d + '/', None), 'dot': (os.path.join(d, '.'), None),
            'dotdot': (os.path.join(real_parent, 'sub', '..', dname), None),
            'relative': (os.path.join('real', dname), top),
            'symlink-dotdot': (os.path.join(top, 'link', '..', dname), None),
            'symlink': (os.path.join(top, 'direct-link'), None)}[sp]
        files = {k.rstrip('/'): v for k, v in t['files'].items()}
        D.write_files(d, files)
        # sibling directories that a pattern-interpreted path could reach; they must never be touched
        for sib in ('logs1', 'logs', 'logx', 'loXgs'):
            for parent in (top, real_parent):
                spath = os.path.join(parent, sib)
                if spath != d:
                    os.makedirs(spath, exist_ok=True)
                    with open(os.path.join(spath, 'sibling_%08X' % t['target']), 'wb') as fh:
                        fh.write(b'sibling')
        outside = os.path.join(top, 'outside')
        os.makedirs(outside)
        exfile = os.path.join(top, 'exclude.txt')
        with open(exfile, 'w') as f:
            f.write('BD8D1234\n')
        top_files = sorted(k for k, v in files.items() if v is not None and '/' not in k)
        tid = '%08X' % t['target']
        argv = ['-p', d_arg]
        kind = c['kind']
        if kind == 'read':
            m = c['mode']
            if m in ('-l', '-a', '-n'):
                argv.append(m)
            elif m == '-i':
                argv += ['-i', tid]
            elif m == '--bmc-id':
                argv += ['--bmc-id', '4660']
            elif m == '--plid':
                argv += ['--plid', '50000001']
            elif m == '--src':
                argv += ['--src', 'BD']
            elif m == '--src-exclude':
                argv += ['--src-exclude', exfile]
            elif m == '-f':
                argv = ['-f', os.path.join(d, top_files[0])] if top_files else ['-f', os.path.join(d, 'missing')]
            if c['hex']:
                argv.append('-x')
            if c['rev']:
                argv.append('-r')
            if c['ext']:
                argv += ['-e', c['ext']]
            if c.get('clean'):
                argv.append(draw_clean_spelling(len(argv)))
            argv += D.selection_argv(c['sel'])
        elif kind == 'json':
            argv.append('-j')
            outdir = {'same': d, 'inside': os.path.join(d, 'emptydir') if 'emptydir' in files else d,
                      'outside': outside, 'none': None, 'missing': os.path.join(top, 'does-not-exist')}[c['out']]
            if outdir is not None:
                argv += ['-o', outdir]
            nb_dir = outdir if outdir is not None else d
            if os.path.isdir(nb_dir) and t.get('neighbours'):
                for nb in t['neighbours']:
                    with open(os.path.join(nb_dir, nb), 'wb') as fh:
                        fh.write(b'not yours: ' + nb.encode())
                note.label('neighbour files in the output directory')
            if c['ext']:
                argv += ['-e', c['ext']]
            if c.get('clean'):
                argv.append('-c')
            argv += D.selection_argv(c['sel'])
        elif kind == 'delete':
            form = c.get('optform', '-d')
            argv += [form + spell(t['target'], c['spell'])] if form.endswith('=') else \
                [form, spell(t['target'], c['spell'])]
        else:
            argv.append('-D')
        before = D.snapshot(top)
        r = cli.forked(argv, cwd=run_cwd)
        after = D.snapshot(top)
        note.label('path-' + sp)
        removed, created, modified = diff(before, after)
        what = 'peltool ' + ' '.join(a.replace(top, '<top>') for a in argv)
        if 'Traceback (most recent call last)' in r.err:
            raise Violation('C11.traceback', '%s printed a traceback: %s' % (what, r.err[-500:]))
        rel = lambda k: os.path.relpath(os.path.join(top, k), d)    # noqa
        if kind == 'read':
            if removed or created or modified:
                raise Violation('C11.read-only', '%s changed the tree: removed %r created %r modified %r'
                                % (what, removed, created, modified), sig='C11.read-only')
        elif kind == 'delete':
            valid = c['spell'] not in INVALID_SPELLINGS
            note.label('id-spelling=' + ('valid' if valid else c['spell']))
            cands = [k for k in top_files if tid in k] if valid else []
            gone = [rel(k) for k in removed]
            if created or modified or not set(gone) <= set(cands) or len(gone) != min(1, len(cands)):
                raise Violation('C11.delete', '%s removed %r (created %r, modified %r); top-level files whose name '
                                'contains the id: %r' % (what, gone, created, modified, cands),
                                sig='C11.delete:%s' % ('nothing' if not gone else
                                                       'too-many' if len(gone) > 1 else 'wrong-file'))
            if valid and (('PEL not found' in r.out) != (not cands)):
                raise Violation('C11.delete', '%s: %d candidate files but stdout is %r' % (what, len(cands), r.out[:100]),
                                sig='C11.delete:message')
        elif kind == 'delete-all':
            gone = sorted(rel(k) for k in removed)
            if created or modified or gone != top_files:
                raise Violation('C11.delete-all', '%s removed %r (created %r, modified %r); the regular files directly '
                                'in the directory are %r' % (what, gone, created, modified, top_files),
                                sig='C11.delete-all')
        else:
            if c.get('clean'):
                # with --clean an original may go, but only one whose JSON file was written in this run
                converted = set()
                for k in created:
                    base = os.path.basename(k)
                    if base.endswith('.json') and base.count('.') >= 2:
                        converted.add(base.rsplit('.', 2)[0])
                bad = [k for k in removed if rel(k) not in converted or '/' in rel(k)]
                if bad or modified:
                    raise Violation('C11.json', '%s removed %r although no JSON file was written for them (written: '
                                    '%r); modified %r' % (what, bad, created, modified), sig='C11.json:clean-removes')
            elif removed or modified:
                raise Violation('C11.json', '%s removed %r / modified %r' % (what, removed, modified),
                                sig='C11.json:destructive')
            outdir_eff = {'same': d, 'inside': os.path.join(d, 'emptydir') if 'emptydir' in files else d,
                          'outside': outside, 'none': d, 'missing': None}[c['out']]
            allowed = set()
            if outdir_eff is not None:
                for k in top_files:
                    if c['ext'] and D.ref_ext(k) != c['ext']:
                        continue
                    o = decode(files[k], make_config(every_pel=True))
                    if o.doc is not None and 'Private Header' in o.doc:
                        eid = str(o.doc['Private Header'].get('Entry Id', ''))
                        eid = eid[2:] if eid[:2].lower() == '0x' else eid
                        allowed.add(os.path.relpath(os.path.join(outdir_eff, '%s.%s.json' % (k, eid)), top))
            bad = [k for k in created if k not in allowed]
            if bad:
                raise Violation('C11.json', '%s created %r; only <pel file>.<entry id>.json in the output directory '
                                'may be created (%r)' % (what, bad, sorted(allowed)), sig='C11.json:names')
            for k in created:
                with open(os.path.join(top, k)) as fh:
                    try:
                        json.load(fh)
                    except ValueError:
                        raise Violation('C11.json', '%s wrote %s which is not JSON' % (what, k), sig='C11.json:content')
            if created:
                note.label('json-files-created')
        nested = any('/' in k and v is not None for k, v in files.items())
        cands = [k for k in top_files if tid in k]
        note.nontrivial = (kind == 'delete' and nested and len(cands) >= 2) or \
            (kind in ('delete-all', 'json') and nested) or (kind == 'json' and c['out'] in ('same', 'none')) or \
            (kind == 'read' and nested and len(top_files) >= 2)
        note.label('cmd=' + (c.get('mode') or kind))
        if nested:
            note.label('nested-files')
