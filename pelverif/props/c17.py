"""C17 - an I/O drawer dump is split into ILOG and trace regions that partition it."""
import os

from hypothesis import strategies as st

from .. import cli
from .. import drawer as D
from ..core import Property, Violation
from ..run import guard
from .c13 import render as render_hex

PROP = Property(
    'C17', 'exploration',
    rule=('Generated: dumps composed of an ILOG part (random entries, optionally containing a buffer name, a '
          'header start, or both at a chosen place) followed by 0..8 trace buffers whose names are drawn with '
          'repetition from the six recognised names (any order, adjacent, at offset 0, possibly cut inside the '
          'header), plus raw byte strings, handed over as a view of bytes / bytearray / a window into a larger buffer; dump files rendered by the harness in both hex formats. Oracle: output '
          '== headings + stand-alone ILOG decode of the first region + stand-alone trace decode of every further '
          'region, with region starts from a reference search (first occurrence of each name, which is what the '
          'statement\'s "recognised header" means in the code; every-occurrence splitting is accepted too), and '
          'the partition invariant on the slices actually handed to the two decoders. Non-trivial = >= 2 buffers '
          'not in name order, or a repeated name, or a header pattern inside the ILOG part.'),
    assumptions=['the stand-alone decoders are correct (that is C14/C15)',
                 'shipped mex header/string files are used for the decode'],
    design_ref='4/C17')

DIVIDER = '-' * 73


def dump():
    import io_drawer.dump as m
    return m


def region_starts(data, every):
    offs = set()
    for name in D.BUFFER_NAMES:
        pat = D.HEADER_START + name.encode()
        if every:
            i = data.find(pat)
            while i != -1:
                offs.add(i)
                i = data.find(pat, i + 1)
        else:
            i = data.find(pat)
            if i != -1:
                offs.add(i)
    return sorted(offs)


def assemble(data, starts, hdr, strf):
    import io_drawer.ilog as ilog
    import io_drawer.trace as trace
    lines = []
    end = starts[0] if starts else len(data)
    lines += ['ILOG', ''] + ilog.parse_ilog_data(memoryview(data[:end]), hdr) + ['', DIVIDER, '']
    for i, s in enumerate(starts):
        e = starts[i + 1] if i + 1 < len(starts) else len(data)
        lines += ['Trace', ''] + trace.parse_trace_data(memoryview(data[s:e]), strf) + ['', DIVIDER, '']
    return lines


def check_dump(data, note):
    d = dump()
    hdr, strf = D.shipped('mex_pte.h'), D.shipped('mexStringFile')
    # record the slices handed to the two decoders (harness-side wrapping of
    # module attributes; silently inactive if the code no longer goes through them)
    seen = []
    orig_i, orig_t = getattr(d, 'parse_ilog_data', None), getattr(d, 'parse_trace_data', None)
    if orig_i and orig_t:
        d.parse_ilog_data = lambda dat, h: (seen.append(('I', bytes(dat))), orig_i(dat, h))[1]
        d.parse_trace_data = lambda dat, s: (seen.append(('T', bytes(dat))), orig_t(dat, s))[1]
    try:
        got = guard('C17.decode', d.parse_dump_data, D.view(data), hdr, strf)
    finally:
        if orig_i and orig_t:
            d.parse_ilog_data, d.parse_trace_data = orig_i, orig_t
    if not data:
        if got != []:
            raise Violation('C17.empty', 'empty input gives output %r' % got[:4], sig='C17.empty')
        return got
    first = region_starts(data, False)
    want = assemble(data, first, hdr, strf)
    if got != want:
        every = region_starts(data, True)
        if every == first or got != assemble(data, every, hdr, strf):
            k = 0
            while k < min(len(got), len(want)) and got[k] == want[k]:
                k += 1
            raise Violation('C17.regions', 'output differs from the region-wise decode at line %d: %r vs %r '
                            '(region starts %r, %d bytes)' % (k, got[k] if k < len(got) else None,
                                                             want[k] if k < len(want) else None, first, len(data)),
                            sig='C17.regions')
        note.label('every-occurrence-reading')
    expected_regions = {1 + len(first), 1 + len(region_starts(data, True))}
    if seen and len(seen) not in expected_regions:
        # the decoder no longer goes through both recorded entry points for every region (it was refactored):
        # the slices cannot be observed reliably; the composition oracle above already decided the output
        note.label('partial-recorder')
        seen = []
    if seen:
        joined = b''.join(b for _, b in seen)
        kinds = ''.join(k for k, _ in seen)
        if joined != data:
            raise Violation('C17.partition', 'the regions decoded do not partition the dump: %d bytes decoded '
                            'in regions of %r, dump has %d' % (len(joined), [len(b) for _, b in seen], len(data)),
                            sig='C17.partition')
        if not (kinds[0] == 'I' and set(kinds[1:]) <= {'T'}):
            raise Violation('C17.partition', 'region kinds %r' % kinds, sig='C17.partition.kinds')
        for k, b in seen[1:]:
            if not any(b.startswith(D.HEADER_START + n.encode()) for n in D.BUFFER_NAMES):
                raise Violation('C17.partition', 'a trace region does not start at a recognised header: %s'
                                % b[:16].hex(), sig='C17.partition.start')
        # ILOG region = everything before the earliest recognised header
        if first and len(seen[0][1]) != first[0]:
            raise Violation('C17.partition', 'ILOG region is %d bytes, the earliest header is at %d'
                            % (len(seen[0][1]), first[0]), sig='C17.partition.ilog')
    else:
        note.label('no-recorder')
    return got


@st.composite
def dump_case(draw):
    strings = [{'hash': 32403714, 'fmt': '', 'loc': ''}, {'hash': 92602121, 'fmt': '', 'loc': ''}]
    n_ilog = draw(st.integers(0, 6))
    ilog = b''.join(draw(st.binary(min_size=8, max_size=8)) for _ in range(n_ilog))
    trap = draw(st.sampled_from([None, None, 'name', 'start', 'both']))
    if trap == 'name':
        ilog += draw(st.sampled_from(D.BUFFER_NAMES)).encode() + b'\x00' * 4
    elif trap == 'start':
        ilog += D.HEADER_START + b'XXXX'
    elif trap == 'both':
        ilog += D.HEADER_START + draw(st.sampled_from(D.BUFFER_NAMES)).encode() + draw(st.binary(max_size=40))
    nbuf = draw(st.integers(0, 8))
    names = [draw(st.sampled_from(D.BUFFER_NAMES)) for _ in range(nbuf)]
    bufs = b''
    for i, nm in enumerate(names):
        b = draw(D.trace_buffer(strings, max_entries=3, name=nm))
        b['ver'], b['hdr_len'], b['time_flg'], b['endian'] = 2, 0x20, 1, 0x42
        raw = D.enc_trace_buffer(b)
        if draw(st.integers(0, 7)) == 0:
            raw = raw[:draw(st.integers(4, 31))]         # cut inside the header
        bufs += raw
    data = ilog + bufs
    if draw(st.integers(0, 9)) == 0:
        data = data[:draw(st.integers(0, len(data)))]
    return {'data': data, 'names': names, 'trap': trap}


def classify(case, note):
    names = case['names']
    order = [D.BUFFER_NAMES.index(n) for n in names]
    nt = (len(names) >= 2 and order != sorted(order)) or len(set(names)) < len(names) or case['trap'] == 'both'
    note.nontrivial = bool(nt)
    note.label('buffers=%s' % (len(names) if len(names) < 3 else '3+'))
    if len(set(names)) < len(names):
        note.label('repeated-name')
    if case['trap']:
        note.label('trap-' + case['trap'])


@PROP.given('composed', lambda tier: dump_case(), quick=800, thorough=30000, shards_quick=8)
def composed(case, note):
    check_dump(case['data'], note)
    classify(case, note)


@PROP.given('raw-bytes', lambda tier: st.one_of(
    st.binary(max_size=120),
    st.lists(st.one_of(st.binary(max_size=20), st.sampled_from(
        [D.HEADER_START + n.encode() for n in D.BUFFER_NAMES] + [D.HEADER_START])), max_size=8).map(b''.join)),
    quick=600, thorough=20000, shards_quick=8)
def raw_bytes(data, note):
    check_dump(data, note)
    note.nontrivial = len(region_starts(data, True)) >= 2


# ---------------------------------------------------------------------------
# dump files
# ---------------------------------------------------------------------------

file_case = st.tuples(dump_case(), st.integers(1, 2), st.booleans(), st.sampled_from(['padded', 'cut']),
                      st.sampled_from([0, 0xFFE0, 0x1230]), st.booleans(), st.sampled_from(['\n', '\n', '', '\r\n']),
                      st.sampled_from([0, 0, 1, 3, 15, 16, 17, 40, 200]))


@PROP.given('dump-files', lambda tier: file_case, quick=200, thorough=8000, shards_quick=8)
def dump_files(case, note):
    dc, fi, lower, last_line, base, use_cli, final_newline, preamble = case
    data = dc['data']
    d = dump()
    hdr, strf = D.shipped('mex_pte.h'), D.shipped('mexStringFile')
    rendered = render_hex(fi, data, lower, last_line, base)
    if rendered:
        # a dump saved from a web page / resource dump carries any number of non-data lines in front
        head = ['IO drawer dump', '', '# collected by service', '--- begin ---']
        rendered = [head[i % len(head)] for i in range(preamble)] + rendered
    # the file may or may not end with a line terminator
    text = '\n'.join(rendered) + (final_newline if rendered and final_newline != '\r\n' else '')
    if final_newline == '\r\n' and last_line == 'padded':
        text = ''.join(l + '\n' for l in rendered)
    with D.TempFile(text, '.dump') as path:
        got = guard('C17.file', d.parse_dump_file, path, hdr, strf)
        want = guard('C17.decode', d.parse_dump_data, D.view(data), hdr, strf) if data else []
        note.extra_eval += 1
        if got != want:
            raise Violation('C17.file', 'decoding the dump file (format %d) differs from decoding its bytes: '
                            '%d vs %d lines; data %s' % (fi, len(got), len(want), data.hex()[:120]),
                            sig='C17.file')
        if use_cli:
            r = cli.forked([path, '-t', 'mex'], script=os.path.join(os.path.dirname(d.__file__), 'dump.py'),
                           module_main=d.main)
            # compare the printed text as a whole: a decoded line may itself contain a line break (a buffer
            # name field holding 0x0A), so splitting the output into lines would not give back the list
            expected_text = ''.join(l + '\n' for l in want)
            if r.status != 0 or r.out != expected_text:
                raise Violation('C17.cli', 'python -m io_drawer.dump -t mex: %s; expected %d lines'
                                % (r.brief(), len(want)), sig='C17.cli')
            note.label('cli')
    classify(dc, note)
    note.label('format%d' % fi)


# ---------------------------------------------------------------------------
# coverage-guided bytes (atheris), thorough tier
# ---------------------------------------------------------------------------

@PROP.custom('coverage-guided')
def coverage_guided(ctx):
    from .. import fuzz
    from ..core import FacetResult
    if ctx.tier == 'quick':
        r = FacetResult('coverage-guided')
        r.notes.append('coverage-guided campaign runs in the thorough tier only')
        return r
    corpus = [b'\x00' * 8 + D.HEADER_START + n.encode() + b' ' * 8 + b'\x00' * 4 + (60).to_bytes(4, 'big') + b'\x00' * 8
              for n in D.BUFFER_NAMES]
    corpus.append(b''.join(corpus[:3]))
    return fuzz.campaign('coverage-guided', 'dump', corpus, runs=10000, seed=ctx.seed, jobs=4, max_len=512,
                         sig_prefix='C17.fuzz')


def replay_coverage_guided(case):
    from ..core import Note
    check_dump(case['data'], Note())
