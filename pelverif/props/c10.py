"""C10 - look-ups by platform log id, BMC id, entry id and SRC return exactly the matches."""
import json
import os

from hypothesis import strategies as st

from .. import cli
from .. import dirs as D
from .. import model as M
from .. import strategies as S
from ..core import Property, Violation
from ..run import need

PROP = Property(
    'C10', 'exploration',
    rule=('Generated: directories whose files are mostly named the way the BMC names them (<16 decimal digits>_<%08X '
          'entry id>, no id being a substring of another name; some names start with a dot, hold blanks / brackets / a '
          'star, carry an extension, and the directory itself may be called logs[2024], lo*gs, l?gs, .logs, ...), platform log ids and entry ids over the whole 32-bit range with boosted small '
          'values (0, 1, 4, 0x0FFFFFFF), several PELs sharing a platform log id, BMC ids, reference codes of 8 hex '
          'characters, PEL classes (hidden / non-serviceable / informational) drawn freely and NO selection option. '
          'Queries: every present id and near misses, spelled XXXXXXXX / 0xXXXXXXXX / 0Xxxxxxxxx; --src substrings '
          'of 1..8 characters; exclusion files of complete reference codes. Oracle: the set of keys (or the document '
          'shown) equals the reference answer computed from the models. Non-trivial = directory with >= 4 PELs whose '
          'answer is a non-empty proper subset containing a hidden or non-serviceable PEL.'),
    assumptions=['reference codes are 8 characters and exclusion files hold complete codes, one per line',
                 'BMC ids are queried in canonical decimal spelling', 'every file name contains its entry id'],
    design_ref='4/C10')


def fname(i, eid, style='bmc'):
    base = '%016d_%08X' % (1718273645091827 + i, eid)
    return {'bmc': base, 'dot': '.' + base, 'blank': 'pel %08X' % eid, 'brackets': '[%08X]' % eid,
            'star': '%08X*' % eid, 'ext': base + '.pel'}[style]


DIR_NAMES = ['logs', 'logs', 'logs', 'logs[2024]', 'lo*gs', 'l?gs', 'logs dir', '.logs', '[l]ogs', 'logs]']
NAME_STYLES = ['bmc'] * 8 + ['dot', 'blank', 'brackets', 'star', 'ext']


@st.composite
def case_strategy(draw, tier):
    n = draw(st.one_of(st.integers(1, 8), st.integers(4, 8), st.integers(4, 8)))
    small = st.sampled_from([0, 1, 4, 0x10, 0x0FFFFFFF, 0x00ABCDEF, 0x10000000, 0x50000001])
    eids = draw(st.lists(st.one_of(S.uint(32), small), min_size=n, max_size=n, unique=True))
    plid_pool = draw(st.lists(st.one_of(S.uint(32), small), min_size=1, max_size=3, unique=True))
    codes = draw(st.lists(st.sampled_from(['BD', '11', 'BC', 'B7']).flatmap(
        lambda h: st.text(st.sampled_from(D.HEX), min_size=6, max_size=6).map(lambda t: h + t)),
        min_size=1, max_size=3, unique=True))
    bmc_pool = draw(st.lists(st.one_of(st.integers(0, 60), S.uint(32)), min_size=1, max_size=n, unique=False))
    pels = []
    for i, e in enumerate(eids):
        p = draw(D.dir_pel(e, selectable=None, plid=draw(st.sampled_from(plid_pool)), refcodes=codes))
        p['ph']['obmc'] = bmc_pool[i % len(bmc_pool)]
        pels.append(p)
    kind = draw(st.sampled_from(['plid', 'plid', 'bmc', 'id', 'src', 'src-exclude']))
    q = {'kind': kind, 'spell': draw(st.sampled_from(['plain', '0x', '0Xlower', 'lower']))}
    if kind == 'plid':
        q['value'] = draw(st.one_of(st.sampled_from(plid_pool), st.sampled_from(plid_pool).map(lambda v: v ^ 1),
                                    S.uint(32)))
    elif kind == 'bmc':
        q['value'] = draw(st.one_of(st.sampled_from(bmc_pool), st.integers(0, 70)))
    elif kind == 'id':
        q['value'] = draw(st.one_of(st.sampled_from(eids), S.uint(32)))
    elif kind == 'src':
        code = draw(st.sampled_from(codes))
        a = draw(st.integers(0, 7))
        b = draw(st.integers(a + 1, 8))
        q['value'] = draw(st.one_of(st.just(code[a:b]), st.just(code), st.sampled_from(['BD', 'ZZ', 'E5', code[:4]])))
    else:
        q['value'] = draw(st.lists(st.sampled_from(codes + ['BD000000', 'FFFFFFFF']), max_size=3, unique=True))
        # the codes are "in the file" however the file is laid out
        q['layout'] = draw(st.sampled_from(['lines', 'lines', 'crlf', 'trailing-blank', 'comment', 'one-line-spaces',
                                            'one-line-commas', 'no-final-newline', 'indented']))
    junk = []
    if draw(st.integers(0, 2)) == 0:
        for k in range(draw(st.integers(1, 4))):
            junk.append([draw(st.sampled_from(['0000_junk%d', 'zzzz_junk%d', '1718273645091827_junk%d', 'README%d'])) % k,
                         draw(st.sampled_from([b'', b'not a PEL', b'PH\x00\x30', b'\xff' * 80]))])
    # archived logs: a sub-directory holding PELs that answer the query too - they are not PELs of this directory
    # (the tool works on the regular files directly in it; see C09 / C11), so they must not show up
    archived = []
    if draw(st.integers(0, 2)) == 0:
        for k in range(draw(st.integers(1, 2))):
            src = draw(st.sampled_from(pels))
            e = draw(st.one_of(S.uint(32), st.just(q['value']) if kind == 'id' else S.uint(32)))
            if e in eids:
                continue
            twin = {'ph': dict(src['ph'], eid=e), 'uh': src['uh'], 'secs': src['secs']}
            if kind == 'bmc' and draw(st.booleans()):
                twin['ph']['obmc'] = q['value']
            archived.append(twin)
    return {'pels': pels, 'query': q, 'hex': False, 'junk': junk, 'archived': archived,
            # "all directories": directory and file names that mean something to glob / the shell
            'dirname': draw(st.sampled_from(DIR_NAMES)),
            'styles': [draw(st.sampled_from(NAME_STYLES)) for _ in pels]}


def spell_id(v, how):
    s = '%08X' % v
    return {'plain': s, '0x': '0x' + s, '0Xlower': '0X' + s.lower(), 'lower': s.lower()}[how]


def refcode(p):
    for s in p['secs']:
        if s['k'] == 'SRC' and s['id'] == 'PS':
            return s['ascii'].decode('ascii').strip(' ')
    return None


def hidden_or_nonserviceable(p):
    from .c07 import ref_hidden, ref_serviceable
    return ref_hidden(p['uh']['flags']) or not ref_serviceable(p['uh']['sev'], p['uh']['flags'])


@PROP.given('lookups', lambda tier: case_strategy(tier), quick=1600, thorough=16000, shards_quick=8)
def lookups(case, note):
    pels, q = case['pels'], case['query']
    styles = case.get('styles') or ['bmc'] * len(pels)
    names = [fname(i, p['ph']['eid'], styles[i]) for i, p in enumerate(pels)]
    if case.get('dirname', 'logs') != 'logs' or set(styles) != {'bmc'}:
        note.label('special-names')
    # soundness of the generator: no id is a substring of another file's name
    for i, p in enumerate(pels):
        e = '%08X' % p['ph']['eid']
        if any(e in nm for j, nm in enumerate(names) if j != i):
            note.label('discarded-id-substring')
            return
    with D.TempDir('c10') as top:
        d = os.path.join(top, case.get('dirname', 'logs'))
        os.makedirs(d)
        D.write_files(d, {nm: M.encode(p) for nm, p in zip(names, pels)})
        # files that are no PELs at all live in the directory too; they must not hide the matches
        D.write_files(d, {nm: data for nm, data in case.get('junk', [])})
        if case.get('junk'):
            note.label('with-junk-files')
        for k, p in enumerate(case.get('archived') or []):
            nm = '%016d_%08X' % (1618273645091827 + k, p['ph']['eid'])
            if any(('%08X' % q['ph']['eid']) in nm for q in pels):
                continue
            D.write_files(d, {'archive/' + nm: M.encode(p)})
            note.label('with-archive-subdirectory')
        kind = q['kind']
        if kind in ('plid', 'src', 'src-exclude'):
            if kind == 'plid':
                argv = ['-p', d, '--plid', spell_id(q['value'], q['spell'])]
                want = {p['ph']['eid'] for p in pels if p['ph']['plid'] == q['value']}
            elif kind == 'src':
                argv = ['-p', d, '--src', q['value']]
                want = {p['ph']['eid'] for p in pels if refcode(p) is not None and q['value'] in refcode(p)}
            else:
                ex = os.path.join(top, 'exclude.txt')
                lay = q.get('layout', 'lines')
                text = {'lines': ''.join(c + '\n' for c in q['value']),
                        'crlf': ''.join(c + '\r\n' for c in q['value']),
                        'trailing-blank': ''.join(c + '  \n' for c in q['value']),
                        'comment': ''.join(c + ' # excluded\n' for c in q['value']),
                        'one-line-spaces': ' '.join(q['value']) + '\n',
                        'one-line-commas': ','.join(q['value']) + '\n',
                        'no-final-newline': '\n'.join(q['value']),
                        'indented': ''.join('  ' + c + '\n' for c in q['value'])}[lay]
                with open(ex, 'w', newline='') as f:
                    f.write(text)
                note.label('exclude-layout=' + lay)
                argv = ['-p', d, '--src-exclude', ex]
                want = {p['ph']['eid'] for p in pels if refcode(p) is not None and refcode(p) not in q['value']}
            r = cli.forked(argv)
            doc = D.parse_json_out(r, 'peltool ' + ' '.join(argv[2:]), 'C10')
            if not isinstance(doc, dict):
                raise Violation('C10.shape', 'look-up output is %s' % type(doc).__name__)
            got = {int(k, 16) for k in doc}
            if got != want or len(doc) != len(want):
                raise Violation(
                    'C10.%s' % kind,
                    'peltool %s lists entry ids %s; exactly %s match (platform log ids %s, reference codes %s)'
                    % (' '.join(argv[2:3] + ([argv[3]] if kind != 'src-exclude' else [repr(q['value'])])),
                       sorted('%08X' % g for g in got), sorted('%08X' % w for w in want),
                       ['%08X' % p['ph']['plid'] for p in pels], [refcode(p) for p in pels]),
                    sig='C10.%s:%s' % (kind, 'missing' if want - got else 'extra'))
            answer = want
        else:
            if kind == 'bmc':
                argv = ['-p', d, '--bmc-id', str(q['value'])]
                cands = [p for p in pels if p['ph']['obmc'] == q['value']]
            else:
                argv = ['-p', d, '-i', spell_id(q['value'], q['spell'])]
                cands = [p for p in pels if p['ph']['eid'] == q['value']]
            r = cli.forked(argv)
            if r.status != 0 or 'Traceback' in r.err:
                raise Violation('C10.status', 'peltool %s: %s' % (' '.join(argv[2:]), r.brief()))
            if not cands:
                if r.out.strip() != 'PEL not found':
                    raise Violation('C10.%s' % kind, 'peltool %s prints %r although no PEL matches'
                                    % (' '.join(argv[2:]), r.out[:200]), sig='C10.%s:phantom' % kind)
            else:
                try:
                    doc = json.loads(r.out)
                except ValueError:
                    raise Violation('C10.%s' % kind, 'peltool %s prints %r although %d PEL(s) match'
                                    % (' '.join(argv[2:]), r.out[:200], len(cands)), sig='C10.%s:missing' % kind)
                ph = need(doc, 'Private Header')
                shown = int(need(ph, 'Entry Id'), 16)
                if shown not in {p['ph']['eid'] for p in cands}:
                    raise Violation('C10.%s' % kind, 'peltool %s shows the PEL with entry id %08X; matching are %s'
                                    % (' '.join(argv[2:]), shown, ['%08X' % p['ph']['eid'] for p in cands]),
                                    sig='C10.%s:wrong' % kind)
                if kind == 'bmc' and int(need(ph, 'BMC Event Log Id')) != q['value']:
                    raise Violation('C10.bmc', 'shown PEL has BMC id %r' % ph['BMC Event Log Id'], sig='C10.bmc:wrong')
            answer = {p['ph']['eid'] for p in cands}
        note.label('query=' + kind)
        special = [p for p in pels if p['ph']['eid'] in answer and hidden_or_nonserviceable(p)]
        if special:
            note.label('answer-has-hidden-or-nonserviceable')
        if kind in ('plid', 'id') and q['value'] < 0x10000000:
            note.label('id<0x10000000')
        note.nontrivial = len(pels) >= 4 and 0 < len(answer) < len(pels) and bool(special)
