"""C04 - user data is rendered from its content or preserved byte-for-byte as a hex dump."""
import json

from hypothesis import strategies as st

from .. import model as M
from .. import plugins as PL
from .. import strategies as S
from ..core import Property, Violation
from ..run import R, must_decode, make_config, need
from ..util import parse_default_dump
from .c01 import expected_names
from .c06 import json_docs, depth

PROP = Property(
    'C04', 'exploration',
    rule=('Generated: user-data (UD) and extended-user-data (ED) sections with (a) built-in JSON payloads for BMC '
          'component 0x2000 (recursive JSON values, keys colliding with the section\'s own keys, unicode, 0-3 NULs), '
          '(b) built-in text payloads (lines over an alphabet that over-represents 0x1F/0x20/0x7E/0x7F, quotes, '
          'colons, backslashes, tabs and multi-byte UTF-8), (c) every fallback: hexdump-only and unknown section '
          'types, no parser module for the creator/component, parser modules disabled, fixture parser raising one of '
          '9 exception kinds or returning None, other built-in subtypes, near misses of the built-in key (creator in the '
          'other case / a neighbouring character, component a bit away) carrying good JSON / text - payloads of any bytes, length 1..512 '
          '(..65 527 in thorough). Oracle: JSON value / replaced text lines shown exactly; for every fallback the '
          'section is present and an independent reader recovers the payload byte-for-byte from its Data lines, '
          'with an Error note when a parser failed. Non-trivial = payload length not a multiple of 16 or containing '
          'the bytes ": ; JSON nested >= 2; text with >= 1 replaced character and >= 2 lines.'),
    assumptions=['built-in payloads are valid JSON / UTF-8 (invalid ones are outside the statement)',
                 'fixture parser modules are made importable by extending udparsers.__path__ in the harness process',
                 'a parser returning a non-JSON string or the JSON text null is not constrained'],
    design_ref='4/C04')

BMC = ord('O')


def find_entry(pel, plugins, idx):
    data = M.encode(pel)
    o = must_decode(data, make_config(allow_plugins=plugins, every_pel=True), oracle='C04.decode')
    if o.doc is None:
        raise Violation('C04.json', 'output is not JSON (see C06)')
    names = expected_names(pel)
    return names[2 + idx], need(o.doc, names[2 + idx])


def wrap(sec, creator=BMC, extra_before=None, extra_after=None):
    secs = []
    if extra_before:
        secs.append(extra_before)
    secs.append(sec)
    if extra_after:
        secs.append(extra_after)
    return M.minimal_pel(secs, ph=M.default_ph(creator=creator)), (1 if extra_before else 0)


def mk_section(kind, ver, sub, comp, data, creator):
    if kind == 'UD':
        return {'k': 'UD', 'ver': ver, 'sub': sub, 'comp': comp, 'data': data}, creator
    return {'k': 'ED', 'ver': ver, 'sub': sub, 'comp': comp, 'creator': creator, 'r1': 0, 'r2': 0,
            'data': data}, ord('B')


# ---------------------------------------------------------------------------
# built-in JSON
# ---------------------------------------------------------------------------

own_keys = st.sampled_from(['Section Version', 'Sub-section type', 'Created by', 'Data'])


@st.composite
def json_case(draw):
    v = draw(json_docs(12))
    if isinstance(v, dict) and draw(st.integers(0, 3)) == 0:
        v[draw(own_keys)] = draw(st.sampled_from(['payload wins', 7, None]))
    raw = json.dumps(v, ensure_ascii=draw(st.booleans())).encode('utf-8')
    if len(raw) > 60000:
        v, raw = {'a': 1}, b'{"a": 1}'
    return {'value': v, 'raw': raw, 'nuls': draw(st.integers(0, 3)), 'lead': draw(st.sampled_from(['', '', ' ', '\n'])),
            'kind': draw(st.sampled_from(['UD', 'ED'])), 'ver': draw(S.byte), 'plugins': draw(st.booleans()),
            'follow': draw(st.booleans())}


NONFINITE = [(b'{"big": 1e999}', {'big': float('inf')}), (b'[-1e400, 1]', [float('-inf'), 1]),
             (b'{"a": {"b": [1E+9999]}}', {'a': {'b': [float('inf')]}}), (b'{"n": NaN}', None),
             (b'[Infinity, -Infinity]', [float('inf'), float('-inf')])]


def nonfinite_cases(tier, seed):
    return [[i, kind, plugins] for i in range(len(NONFINITE)) for kind in ('UD', 'ED') for plugins in (0, 1)]


@PROP.enum('builtin-json-nonfinite', nonfinite_cases, chunk=4, exhaustive=True)
def builtin_json_nonfinite(case, note):
    """number literals that overflow a double (valid JSON) and the NaN / Infinity tokens the JSON reader
    accepts: the section - and the rest of the PEL - must still be shown"""
    i, kind, plugins = case
    raw, value = NONFINITE[i]
    sec, phc = mk_section(kind, 1, 1, 0x2000, raw + b'\x00', BMC)
    after = {'k': 'RAW', 'id': 0x5A5A, 'ver': 0, 'sub': 0, 'comp': 0, 'data': b'\x01\x02'}
    pel, idx = wrap(sec, phc, None, after)
    name, entry = find_entry(pel, bool(plugins), idx)
    if value is not None:
        shown = entry if isinstance(value, dict) else entry.get('Data')
        if isinstance(value, dict):
            for k, v in value.items():
                if shown.get(k) != v:
                    raise Violation('C04.json-value', '%s: JSON payload %r: key %r shown as %r' % (name, raw, k, shown.get(k)),
                                    sig='C04.json-value')
        elif shown != value:
            raise Violation('C04.json-value', '%s: JSON payload %r shown as %r' % (name, raw, shown), sig='C04.json-value')
    note.nontrivial = True


@PROP.given('builtin-json', lambda tier: json_case(), quick=3000, thorough=50000, shards_quick=8)
def builtin_json(case, note):
    data = case['lead'].encode() + case['raw'] + b'\x00' * case['nuls']
    sec, phc = mk_section(case['kind'], case['ver'], 1, 0x2000, data, BMC)
    after = {'k': 'RAW', 'id': 0x5A5A, 'ver': 0, 'sub': 0, 'comp': 0, 'data': b'\x01'} if case['follow'] else None
    pel, idx = wrap(sec, phc, None, after)
    name, entry = find_entry(pel, case['plugins'], idx)
    v = case['value']
    if isinstance(v, dict):
        for k, val in v.items():
            if k not in entry or entry[k] != val:
                raise Violation('C04.json-value', '%s: JSON payload key %r -> %r is shown as %r'
                                % (name, k, val, entry.get(k, '<absent>')), sig='C04.json-value')
        # keys beyond the payload's own (additional information about the section) are tolerated, but the
        # section must not fall back to a dump of a payload it could render
        if 'Data' in entry and 'Data' not in v:
            raise Violation('C04.json-value', '%s: a JSON object payload is shown under Data: %r'
                            % (name, str(entry['Data'])[:200]), sig='C04.json-value.extra')
    else:
        if 'Data' not in entry or entry['Data'] != v or type(entry['Data']) != type(v):
            raise Violation('C04.json-value', '%s: JSON payload %r is shown as %r'
                            % (name, v, entry.get('Data', '<absent>')), sig='C04.json-value')
    note.nontrivial = depth(v) >= 2
    note.label(case['kind'], 'depth=%s' % min(depth(v), 3))


# ---------------------------------------------------------------------------
# built-in text
# ---------------------------------------------------------------------------

EDGE = ['\x1f', ' ', '~', '\x7f', '"', ':', '\\', '\t', 'é', 'ß', '€', '\U0001F600', '\x00', '\r', '\x0b', '":',
        '{', '\x80', '\xa0']
text_char = st.one_of(st.sampled_from(EDGE), st.sampled_from([chr(c) for c in range(0x20, 0x7F)]),
                      st.characters(codec='utf-8', exclude_characters='\n'))
solid = st.sampled_from([chr(c) for c in range(0x21, 0x7F)])


@st.composite
def text_case(draw):
    n = draw(st.integers(1, 5))
    lines = []
    for i in range(n):
        body = ''.join(draw(st.lists(text_char, max_size=20)))
        lines.append(body)
    # first and last character printable and non-blank so that the oracle does
    # not depend on whitespace-stripping corner cases
    lines[0] = draw(solid) + lines[0]
    lines[-1] = lines[-1] + draw(solid)
    return {'lines': lines, 'nuls': draw(st.integers(0, 4)), 'kind': draw(st.sampled_from(['UD', 'ED'])),
            'ver': draw(S.byte), 'plugins': draw(st.booleans())}


def expected_text_lines(lines):
    return [''.join(c if 0x20 <= ord(c) <= 0x7E else '.' for c in l) for l in lines]


@PROP.given('builtin-text', lambda tier: text_case(), quick=3000, thorough=50000, shards_quick=8)
def builtin_text(case, note):
    text = '\n'.join(case['lines'])
    data = text.encode('utf-8') + b'\x00' * case['nuls']
    sec, phc = mk_section(case['kind'], case['ver'], 3, 0x2000, data, BMC)
    pel, idx = wrap(sec, phc)
    name, entry = find_entry(pel, case['plugins'], idx)
    want = expected_text_lines(case['lines'])
    got = need(entry, 'Data', name)
    if got != want:
        raise Violation('C04.text', '%s: text payload %r is shown as %r, expected %r' % (name, text, got, want),
                        sig='C04.text')
    replaced = sum(1 for l in case['lines'] for c in l if not (0x20 <= ord(c) <= 0x7E))
    note.nontrivial = replaced >= 1 and len(case['lines']) >= 2
    note.label(case['kind'], 'replaced' if replaced else 'all-printable')


# ---------------------------------------------------------------------------
# fallbacks: the payload is always recoverable
# ---------------------------------------------------------------------------

def payload_st(tier):
    pair = st.sampled_from([b'":', b'": ', b'\\"', b'{', b'\x00', b'\xff'])
    small = st.lists(st.one_of(st.binary(min_size=1, max_size=24), pair), min_size=1, max_size=12).map(b''.join)
    opts = [small, S.payload(64), S.payload(512)]
    if tier != 'quick':
        opts.append(st.sampled_from([4096, 65523, 65527, 65000]).flatmap(
            lambda n: st.binary(min_size=64, max_size=64).map(lambda b: (b * (n // 64 + 1))[:n])))
    return st.one_of(*opts)


FALLBACKS = ['raw-named', 'raw-unknown', 'no-module', 'plugins-off', 'raises', 'returns-none',
             'builtin-other-subtype', 'plugins-off-with-module', 'builtin-not-utf8', 'import-fails',
             'builtin-lookalike']

# near misses of the built-in key (creator 'O', component 0x2000): same letter in the other case, neighbouring
# characters, components one bit / one digit away.  None of them has the built-in formats, so the payload -
# chosen to be perfectly good JSON / text - must be hex dumped
LOOKALIKE_CREATORS = [ord(c) for c in 'o0NPQ@_']
LOOKALIKE_COMPS = [0x2001, 0x2100, 0x0020, 0x2002, 0x3000, 0x1FFF, 0xA000]


@st.composite
def fallback_case(draw, tier):
    fb = draw(st.sampled_from(FALLBACKS))
    creator = draw(st.sampled_from([ord(c) for c in 'BCHKLMPSTXZbq7'] + [BMC]))
    comp = draw(st.one_of(S.uint(16), st.sampled_from([0x1000, 0xABCD, 0x0001])))
    if (chr(creator).lower(), comp) in (('m', 0x2C00), ('o', 0xE500)) or (creator == BMC and comp == 0x2000):
        comp = 0x1234
    c = {'fallback': fb, 'payload': draw(payload_st(tier)), 'kind': draw(st.sampled_from(['UD', 'ED'])),
         'creator': creator, 'comp': comp, 'ver': draw(S.byte), 'sub': draw(S.byte),
         'exc': draw(st.sampled_from(PL.RAISES)), 'follow': draw(st.booleans()),
         # a section of ANOTHER creator with the same component id, served by a parser, decoded first
         'prior': draw(st.integers(0, 2)) == 0,
         # same-named sections that are not contiguous: UD, unknown, <section under test>
         'sandwich': draw(st.integers(0, 2)) == 0, 'other_payload': draw(S.payload(20))}
    if fb == 'raw-named':
        c['id'] = S.sid(draw(st.sampled_from(S.HEXDUMP_NAMED)))
    elif fb == 'raw-unknown':
        c['id'] = draw(S.unknown_id)
    elif fb == 'builtin-other-subtype':
        c['sub'] = draw(st.one_of(st.sampled_from([2, 4, 0, 5, 255]), st.integers(4, 255)))
    elif fb == 'builtin-lookalike':
        if draw(st.booleans()):
            c['creator'], c['comp'] = draw(st.sampled_from(LOOKALIKE_CREATORS)), 0x2000
        else:
            c['creator'], c['comp'] = BMC, draw(st.sampled_from(LOOKALIKE_COMPS))
        c['sub'] = draw(st.sampled_from([1, 3, 1, 3, 2, 4]))
        c['payload'] = draw(st.sampled_from([b'{"Key": "value", "N": 7}', b'[1, 2, 3]', b'plain text\nsecond line',
                                             b'  padded text \x00\x00', b'"just a string"', b'{}', b'7']))
        c['lookalike_plugins'] = draw(st.booleans())
    elif fb == 'builtin-not-utf8':
        # built-in JSON / text format whose payload is not valid UTF-8: neither JSON nor text
        c['sub'] = draw(st.sampled_from([1, 3]))
        bad = draw(st.sampled_from([b'\x80', b'\xff', b'\xc0\x20', b'\xed\xa0\x80', b'\xf8']))
        pre = draw(st.binary(max_size=12))
        c['payload'] = pre + bad + draw(st.binary(max_size=12))
        try:
            c['payload'].decode('utf-8')
            c['payload'] = b'\xff' + c['payload']
        except UnicodeDecodeError:
            pass
    return c


@PROP.given('fallbacks', lambda tier: fallback_case(tier), quick=6000, thorough=60000, shards_quick=8)
def fallbacks(case, note):
    fb = case['fallback']
    payload = case['payload']
    creator, comp = case['creator'], case['comp']
    if case['kind'] == 'ED' and len(payload) > 65523:
        payload = payload[:65523]
    plugins = fb not in ('plugins-off', 'plugins-off-with-module')
    if fb == 'builtin-lookalike':
        plugins = case['lookalike_plugins']
    spec = {}
    expect_error = False
    if fb in ('raw-named', 'raw-unknown'):
        sec, phc = {'k': 'RAW', 'id': case['id'], 'ver': case['ver'], 'sub': case['sub'], 'comp': comp,
                    'data': payload}, creator
    elif fb in ('builtin-other-subtype', 'builtin-not-utf8'):
        sec, phc = mk_section(case['kind'], case['ver'], case['sub'], 0x2000, payload, BMC)
    else:
        sec, phc = mk_section(case['kind'], case['ver'], case['sub'], comp, payload, creator)
        name = PL.ud_module_name(chr(creator), comp)
        if fb == 'raises':
            spec = {'udparsers': {name: {'kind': 'raise', 'exc': case['exc']}}}
            expect_error = True
        elif fb == 'returns-none':
            spec = {'udparsers': {name: {'kind': 'none'}}}
            expect_error = True
        elif fb == 'import-fails':
            # the module exists but raises while it is imported: the payload must survive; an error note is
            # due unless the failure is an ImportError (then the module counts as absent)
            how = ['RuntimeError', 'SyntaxError', 'FileNotFoundError', 'ImportError'][len(payload) % 4]
            spec = {'udparsers': {name: {'kind': 'import-fails', 'how': how}}}
        elif fb == 'plugins-off-with-module':
            spec = {'udparsers': {name: {'kind': 'json', 'value': {'should': 'not run'}}}}
    after = {'k': 'UD', 'ver': 1, 'sub': 1, 'comp': 0x2000, 'data': b'{"after": true}'} if case['follow'] else None
    secs = []
    prior_mod = None
    others = []         # (index, payload) of further hex-dumped sections that must survive too
    if case.get('prior') and fb in ('no-module', 'plugins-off', 'raises', 'returns-none', 'plugins-off-with-module'):
        pc = 'q' if chr(creator).lower() != 'q' else 'r'
        spec.setdefault('udparsers', {})[PL.ud_module_name(pc, comp)] = {'kind': 'json', 'value': {'Prior': 'parser'}}
        prior_mod = 'udparsers.%s.%s' % (PL.ud_module_name(pc, comp), PL.ud_module_name(pc, comp))
        secs.append({'k': 'ED', 'ver': 1, 'sub': 1, 'comp': comp, 'creator': ord(pc), 'r1': 0, 'r2': 0,
                     'data': b'prior section'})
    if case.get('sandwich'):
        twin = dict(sec, data=case['other_payload'])
        if sec['k'] == 'RAW' or fb in ('no-module', 'plugins-off', 'builtin-other-subtype'):
            others.append((len(secs), case['other_payload']))
        secs.append(twin)
        secs.append({'k': 'RAW', 'id': 0x5151, 'ver': 0, 'sub': 0, 'comp': 0, 'data': b'\x51'})
        if sec['k'] == 'RAW':
            secs.append({'k': 'UD', 'ver': 1, 'sub': 1, 'comp': 0x2000, 'data': b'{"between": 1}'})
    idx = len(secs)
    secs.append(sec)
    if after:
        secs.append(after)
    pel = M.minimal_pel(secs, ph=M.default_ph(creator=phc))
    with PL.PluginFixtures(spec) as fx:
        data_ = M.encode(pel)
        o = must_decode(data_, make_config(allow_plugins=plugins, every_pel=True), oracle='C04.decode')
        if o.doc is None:
            raise Violation('C04.json', 'output is not JSON (see C06)')
        names = expected_names(pel)
        if list(o.doc) != names:
            raise Violation('C04.present', 'sections shown %r, the PEL holds %r - a section was dropped or renamed'
                            % (list(o.doc), names), sig='C04.present')
        name, entry = names[2 + idx], need(o.doc, names[2 + idx])
        for oi, opayload in others:
            ogot = parse_default_dump(need(need(o.doc, names[2 + oi]), 'Data', names[2 + oi]), names[2 + oi])
            if ogot != opayload:
                raise Violation('C04.payload', '%s: the hex dump carries %s, the payload is %s'
                                % (names[2 + oi], ogot.hex(), opayload.hex()), sig='C04.payload:twin')
        calls = [c for c in fx.calls if c[1] != prior_mod]
    dump = need(entry, 'Data', name)
    got = parse_default_dump(dump, name + ' / Data')
    if got != payload:
        raise Violation('C04.payload', '%s (%s): the hex dump carries %d bytes %s..., the payload is %d bytes %s...'
                        % (name, fb, len(got), got[:24].hex(), len(payload), payload[:24].hex()),
                        sig='C04.payload:%s' % fb)
    if expect_error:
        err = entry.get('Error')
        if not isinstance(err, str) or not err:
            raise Violation('C04.error-note', '%s: the parser %s but the section carries no error note: keys %r'
                            % (name, 'raised ' + case['exc'] if fb == 'raises' else 'returned nothing',
                               list(entry)), sig='C04.error-note:%s' % (case['exc'] if fb == 'raises' else 'none'))
        if not calls and fb != 'import-fails':
            raise Violation('C04.fixture', '%s: the fixture parser was never called' % name, sig='C04.fixture')
    if fb == 'plugins-off-with-module' and calls:
        raise Violation('C04.plugins-off', 'a parser module ran although parser modules are disabled',
                        sig='C04.plugins-off')
    note.label(fb, case['kind'])
    note.nontrivial = len(payload) % 16 != 0 or b'":' in payload
