"""C06 - the printed JSON parses back to exactly the decoded document."""
import json
import os
import shutil
import tempfile

from hypothesis import strategies as st

from .. import cli
from .. import model as M
from .. import strategies as S
from ..core import Property, Violation, HarnessError
from ..run import R, main_inprocess

PROP = Property(
    'C06', 'exploration',
    rule=('Generated: (a) recursive JSON documents (depth <= 5; objects, arrays, strings, ints, bools, null, finite '
          'floats) whose keys and strings come from an alphabet that over-represents " : { } [ ] \\ space newline '
          'NUL and non-ASCII, in particular the pair ": ; both call-site widths (34, 29) and others; (b) PELs '
          'carrying such strings in text and JSON user data, SRC reference codes and text fields, pushed through '
          'every printing mode (-f, -a, -l, --plid, --src, -j) with the alignment pass recorded. Oracle: '
          'json.loads(printed) == json.loads(un-aligned text) and every output line equals its input line or the '
          'input line with blanks inserted directly after the colon of a leading key. Non-trivial = some key or '
          'string contains ": or { , or nesting depth >= 2.'),
    assumptions=['NaN/Infinity are excluded (not equal to themselves)',
                 'the un-aligned text is observed by wrapping peltool.prettyPrint in the harness process'],
    design_ref='4/C06')

NASTY = ['"', ':', '":', '": ', '{', '}', '[', ']', '\\', ' ', '\n', '\x00', '\t', 'é', ' ', '\U0001F600',
         ',', '\\"', '":{', 'a', 'B', '0', "'"]
nasty_text = st.lists(st.one_of(st.sampled_from(NASTY), st.characters(codec='utf-8'),
                                st.sampled_from(list('abcXYZ012 _-'))), max_size=12).map(''.join)
plain_text = st.text(st.sampled_from(list('abcdefgh XYZ012_-')), max_size=20)
text = st.one_of(nasty_text, plain_text, st.just('":'), st.just('a": "b'), st.text(max_size=40))

scalar = st.one_of(text, st.integers(-2 ** 40, 2 ** 40), st.booleans(), st.none(),
                   st.floats(allow_nan=False, allow_infinity=False))


def json_docs(max_leaves=25):
    return st.recursive(scalar, lambda ch: st.one_of(st.lists(ch, max_size=5),
                                                      st.dictionaries(text, ch, max_size=5)),
                        max_leaves=max_leaves)


def depth(x):
    if isinstance(x, dict):
        return 1 + max([depth(v) for v in x.values()] or [0])
    if isinstance(x, list):
        return 1 + max([depth(v) for v in x] or [0])
    return 0


def strings_of(x):
    if isinstance(x, dict):
        for k, v in x.items():
            yield k
            yield from strings_of(v)
    elif isinstance(x, list):
        for v in x:
            yield from strings_of(v)
    elif isinstance(x, str):
        yield x


def leading_key_end(line):
    """index just after the colon of a key that starts the line (after
    indentation), or None - a tiny JSON string tokenizer"""
    i = 0
    while i < len(line) and line[i] == ' ':
        i += 1
    if i >= len(line) or line[i] != '"':
        return None
    i += 1
    while i < len(line):
        c = line[i]
        if c == '\\':
            i += 2
            continue
        if c == '"':
            break
        i += 1
    if i >= len(line):
        return None
    i += 1
    if i < len(line) and line[i] == ':':
        return i + 1
    return None


def check_alignment(before, after, what):
    """whitespace-only clause"""
    bl, al = before.split('\n'), after.split('\n')
    if len(bl) != len(al):
        raise Violation('C06.whitespace', '%s: alignment changed the number of lines (%d -> %d)'
                        % (what, len(bl), len(al)), sig='C06.whitespace.lines')
    for b, a in zip(bl, al):
        if a == b:
            continue
        k = leading_key_end(b)
        ok = False
        if k is not None and a.startswith(b[:k]) and a.endswith(b[k:]):
            mid = a[k:len(a) - len(b[k:])]
            ok = len(a) >= len(b) and mid.strip(' ') == '' and a[:k] == b[:k]
        if not ok:
            raise Violation('C06.whitespace', '%s: line %r became %r - more than blanks after a key\'s colon changed'
                            % (what, b, a), sig='C06.whitespace')


def check_text(before, after, what):
    try:
        want = json.loads(before)
    except ValueError as e:
        raise Violation('C06.input', '%s: the un-aligned text is not JSON: %s' % (what, e))
    try:
        got = json.loads(after)
    except ValueError as e:
        raise Violation('C06.parse', '%s: printed text is not valid JSON (%s): %r' % (what, e, after[:300]),
                        sig='C06.parse')
    if got != want:
        raise Violation('C06.equal', '%s: printed text parses to a different document: %r vs %r'
                        % (what, _diff(got, want), None), sig='C06.equal')
    check_alignment(before, after, what)


def _diff(a, b, path='$'):
    if type(a) != type(b):
        return '%s: %r vs %r' % (path, a, b)
    if isinstance(a, dict):
        if list(a.keys()) != list(b.keys()):
            ka, kb = set(a), set(b)
            return '%s keys: printed-only %r, decoded-only %r' % (path, sorted(ka - kb)[:3], sorted(kb - ka)[:3])
        for k in a:
            if a[k] != b[k]:
                return _diff(a[k], b[k], path + '.' + k)
    if isinstance(a, list):
        if len(a) != len(b):
            return '%s length %d vs %d' % (path, len(a), len(b))
        for i, (x, y) in enumerate(zip(a, b)):
            if x != y:
                return _diff(x, y, '%s[%d]' % (path, i))
    return '%s: %r vs %r' % (path, a, b)


def classify_doc(doc, note):
    ss = list(strings_of(doc))
    special = any('":' in s or '{' in s for s in ss)
    d = depth(doc)
    note.nontrivial = special or d >= 2
    if special:
        note.label('quote-colon-or-brace')
    note.label('depth=%s' % (d if d < 3 else '3+'))


@PROP.given('documents', lambda tier: st.tuples(json_docs(), st.sampled_from([34, 29, 34, 29, 0, 5, 80])),
            quick=4000, thorough=120000, shards_quick=8)
def documents(case, note):
    doc, width = case
    before = json.dumps(doc, indent=4)
    after = R.peltool.prettyPrint(before, width) if width != 34 else R.peltool.prettyPrint(before)
    check_text(before, after, 'prettyPrint(width=%d)' % width)
    classify_doc(doc, note)


# ---------------------------------------------------------------------------
# end to end: every printing mode
# ---------------------------------------------------------------------------

TEXTCH = [chr(c) for c in range(0x20, 0x7F)]
nasty_line = st.lists(st.one_of(st.sampled_from(['"', ':', '":', '": ', '{', '}', '\\', '[', ',']),
                                st.sampled_from(TEXTCH)), min_size=1, max_size=30).map(''.join)


def nasty_ascii(width):
    return st.lists(st.one_of(st.sampled_from(['"', ':', '{', '\\', '}']), st.sampled_from(list('AB12-'))),
                    min_size=1, max_size=width).map(lambda l: ''.join(l)[:width])


@st.composite
def e2e_pel(draw, i):
    secs = []
    if draw(st.booleans()):
        ascii_ = draw(st.one_of(nasty_ascii(16).map(lambda s: 'BD' + s), st.just('BD8D1234')))
        secs.append(M.default_src(ascii=M.pad_text(ascii_[:32], 32, b' '),
                                  words=[draw(S.uint(32)) for _ in range(8)]))
    for _ in range(draw(st.integers(0, 3))):
        kind = draw(st.sampled_from(['text', 'json', 'mt', 'eh', 'raw', 'bad-json', 'long-line', 'plugin']))
        if kind == 'text':
            lines = draw(st.lists(nasty_line, min_size=1, max_size=4))
            lines = [('x' + l + 'x') for l in lines]
            secs.append({'k': 'UD', 'ver': 1, 'sub': 3, 'comp': 0x2000, 'data': '\n'.join(lines).encode() + b'\x00'})
        elif kind == 'json':
            v = draw(json_docs(10))
            raw = json.dumps(v, ensure_ascii=draw(st.booleans())).encode('utf-8')
            if len(raw) > 60000:
                raw = b'{}'
            secs.append({'k': 'UD', 'ver': 1, 'sub': 1, 'comp': 0x2000, 'data': raw + b'\x00' * draw(st.integers(0, 3))})
        elif kind == 'long-line':
            # one decoded line far longer than any I/O buffer (8 KiB, 64 KiB)
            n = draw(st.sampled_from([8150, 8192, 8200, 9000, 20000, 65000]))
            ch = draw(st.sampled_from(['a', 'x', ' ', '"', '\\']))
            if draw(st.booleans()):
                secs.append({'k': 'UD', 'ver': 1, 'sub': 3, 'comp': 0x2000,
                             'data': ('L' + ch * min(n, 65000) + 'R').encode()})
            else:
                secs.append({'k': 'UD', 'ver': 1, 'sub': 1, 'comp': 0x2000,
                             'data': json.dumps({'long': 'L' + 'z' * min(n, 60000) + 'R'}).encode()})
        elif kind == 'plugin':
            # sections served by the shipped plug-ins (hardware diagnostics, I/O drawer), mostly with payloads the
            # plug-in cannot digest: the decoder then produces an error note + hex dump, which must be printed
            # like any other document
            if draw(st.booleans()):
                secs.append({'k': 'UD', 'ver': draw(st.sampled_from([1, 2])), 'sub': draw(st.integers(1, 5)),
                             'comp': 0xE500, 'data': draw(st.binary(min_size=1, max_size=12))})
            else:
                secs.append({'k': 'ED', 'ver': draw(st.sampled_from([1, 2, 9])), 'sub': draw(st.sampled_from([72, 73, 84, 1])),
                             'comp': 0x2C00, 'creator': ord('M'), 'r1': 0, 'r2': 0,
                             'data': draw(st.binary(min_size=1, max_size=40))})
        elif kind == 'bad-json':
            # JSON-format user data that does not parse (trailing comma, cut off, empty, not UTF-8): it is shown
            # as a hex dump, and whatever is printed must still be the decoded document
            raw = draw(st.sampled_from([b'{"a": 1,}', b'{"a": [1, 2', b'', b'nope', b'{"a": 1} trailing', b'\xff\xfe{}',
                                        b"{'single': 1}", b'[1, 2,, 3]']))
            secs.append({'k': draw(st.sampled_from(['UD', 'UD', 'ED'])), 'ver': 1, 'sub': 1, 'comp': 0x2000,
                         'data': raw + b'\x00', 'creator': ord('O'), 'r1': 0, 'r2': 0})
        elif kind == 'mt':
            secs.append({'k': 'MT', 'ver': 1, 'sub': 0, 'comp': 0x2000,
                         'mtm': M.pad_text(draw(nasty_ascii(8)), 8), 'sn': M.pad_text(draw(nasty_ascii(12)), 12)})
        elif kind == 'eh':
            secs.append({'k': 'EH', 'ver': 1, 'sub': 0, 'comp': 0x2000, 'mtm': M.pad_text(draw(nasty_ascii(8)), 8),
                         'sn': M.pad_text(draw(nasty_ascii(12)), 12), 'fw': M.pad_text(draw(nasty_ascii(16)), 16),
                         'subfw': M.pad_text(draw(nasty_ascii(16)), 16), 'r4': 0, 'ref': M.timestamp(),
                         'r1': 0, 'r2': 0, 'r3': 0, 'symptom': M.pad_text(draw(nasty_ascii(20)), 20)})
        else:
            secs.append(draw(S.raw_section()))
    plid = draw(st.sampled_from([0x50000001, 0x50000002]))
    pel = M.minimal_pel(secs, ph=M.default_ph(eid=0x50000100 + i, plid=plid, creator=ord('O')))
    if draw(st.integers(0, 3)) == 0:
        pel['uh']['flags'] |= 0x4000        # hidden: not displayed by default, sits between displayed PELs
    return pel


@st.composite
def e2e_case(draw):
    n = draw(st.one_of(st.integers(1, 3), st.integers(3, 5)))
    pels = [draw(e2e_pel(i)) for i in range(n)]
    pels[0]['uh']['flags'] &= ~0x4000       # the first file is always displayed (-f uses it)
    mode = draw(st.sampled_from(['-f', '-a', '-l', '--plid', '--src', '-j', 'parsePEL', '-i', '--bmc-id']))
    return {'pels': pels, 'mode': mode, 'real': draw(st.integers(0, 9)) == 0,
            # look-ups by id: the directory also holds copies of the log asked for (a back-up, another extension)
            'copies': draw(st.lists(st.sampled_from(['.bak', '.pel', '~', '.1']), max_size=2, unique=True)),
            # output files left behind by an earlier run (longer than the new document)
            'stale_outputs': draw(st.booleans()), 'junk_between': draw(st.integers(0, 3)) == 0}


@PROP.given('end-to-end', lambda tier: e2e_case(), quick=250, thorough=8000, shards_quick=8)
def end_to_end(case, note):
    d = tempfile.mkdtemp(prefix='c06')
    outdir = tempfile.mkdtemp(prefix='c06o')
    try:
        names = []
        for i, p in enumerate(case['pels']):
            fn = os.path.join(d, 'pel%02d' % i)
            if case['mode'] in ('-i', '--bmc-id'):
                # the BMC's naming scheme (the id look-up goes by file name), ids distinct from the first file's
                if i:
                    p['ph']['eid'] = (case['pels'][0]['ph']['eid'] + i) & 0xFFFFFFFF
                    p['ph']['obmc'] = (case['pels'][0]['ph']['obmc'] + i) & 0xFFFFFFFF
                fn = os.path.join(d, '%016d_%08X' % (1718273645091827 + i, p['ph']['eid']))
            names.append(fn)
            with open(fn, 'wb') as f:
                f.write(M.encode(p))
            if i == 0 and case['mode'] in ('-i', '--bmc-id'):
                for suffix in case.get('copies', []):
                    with open(fn + suffix, 'wb') as f:
                        f.write(M.encode(p))
                    note.label('copy of the log asked for in the directory')
            if case.get('stale_outputs'):
                with open(os.path.join(outdir, 'pel%02d.%08X.json' % (i, p['ph']['eid'])), 'w') as f:
                    f.write('{"stale": "%s"}\n' % ('x' * 20000))
        if case.get('junk_between') and len(case['pels']) >= 2:
            with open(os.path.join(d, 'pel00_junk'), 'wb') as f:
                f.write(b'not a PEL')
        # Oracle without any assumption on HOW the tool aligns: the same command is run twice, once as it is and
        # once with the alignment step switched off (prettyPrint replaced by the identity).  The un-aligned text is
        # what json.dumps made of the decoded document(s); the printed text must parse to the same value and differ
        # from it only by blanks after the colon of a leading key.
        def identity(text, *a, **kw):
            return text
        hook = hasattr(R.peltool, 'prettyPrint')
        if not hook:
            note.label('no-alignment-hook')
        mode = case['mode']
        pairs = []          # (un-aligned text, printed text)
        if mode == 'parsePEL':
            from ..run import decode
            o = decode(M.encode(case['pels'][0]))
            if o.exc is not None or not o.text:
                raise Violation('C06.decode', 'well-formed PEL was not decoded: %s' % o.describe())
            plain = o.text
            if hook:
                orig = R.peltool.prettyPrint
                R.peltool.prettyPrint = identity
                try:
                    plain = decode(M.encode(case['pels'][0])).text
                finally:
                    R.peltool.prettyPrint = orig
            pairs.append((plain, o.text))
            argv = None
        else:
            outdir0 = tempfile.mkdtemp(prefix='c06p')
            try:
                def argv_for(od):
                    return {'-f': ['-f', names[0]], '-a': ['-p', d, '-a'], '-l': ['-p', d, '-l'],
                            '--plid': ['-p', d, '--plid', '50000001'], '--src': ['-p', d, '--src', 'BD'],
                            '-j': ['-p', d, '-j', '-o', od],
                            '-i': ['-p', d, '-i', '%08X' % case['pels'][0]['ph']['eid']],
                            '--bmc-id': ['-p', d, '--bmc-id', str(case['pels'][0]['ph']['obmc'])]}[mode]
                argv = argv_for(outdir)
                status, out, err = main_inprocess(argv)
                if status != 0:
                    raise Violation('C06.cli', 'peltool %s exited with %s: %s' % (mode, status, err[:300]))
                status0, out0, err0 = main_inprocess(argv_for(outdir0), {'prettyPrint': identity} if hook else None)
                if status0 != 0:
                    raise HarnessError('the un-aligned reference run of peltool %s failed: %s' % (mode, err0[:300]))
                if mode == '-j':
                    plain_files = {}
                    for fn in sorted(os.listdir(outdir0)):
                        with open(os.path.join(outdir0, fn)) as f:
                            plain_files[fn] = f.read()
                    written = {}
                    for fn in sorted(os.listdir(outdir)):
                        with open(os.path.join(outdir, fn)) as f:
                            t = f.read()
                        if fn not in plain_files and t.startswith('{"stale"') and t.rstrip().endswith('"}'):
                            continue    # left over from the earlier run for a PEL that is not displayed now
                        written[fn] = t
                    if sorted(written) != sorted(plain_files):
                        raise Violation('C06.json-files', 'files written %r, documents decoded for %r'
                                        % (sorted(written), sorted(plain_files)))
                    for fn in written:
                        pairs.append((plain_files[fn], written[fn]))
                else:
                    pairs.append((out0, out))
            finally:
                shutil.rmtree(outdir0, ignore_errors=True)
        for plain, printed in pairs:
            check_text(plain, printed, mode if mode != 'parsePEL' else 'parsePEL')
        if argv is not None and case['real'] and mode in ('-f', '-a', '-l'):
            r = cli.real(argv)
            if r.status != 0 or r.out != pairs[0][1]:
                raise Violation('C06.cli', 'a real interpreter run of peltool %s prints something else than '
                                'the in-process run: %s' % (mode, r.brief()), sig='C06.real')
            note.label('real-subprocess')
        note.label('mode=' + mode)
        docs = [json.loads(b) for b, _ in pairs]
        special = any('":' in s or '{' in s for doc in docs for s in strings_of(doc))
        note.nontrivial = special or any(depth(x) >= 3 for x in docs)
    finally:
        shutil.rmtree(d, ignore_errors=True)
        shutil.rmtree(outdir, ignore_errors=True)
