"""C05 - malformed PELs are rejected cleanly: never a hang, crash or fabricated decode.

Facets (each with assertions on - in process - and off - `python -O` worker):
  prefixes     every proper prefix of generated well-formed PELs is rejected
  corruption   byte edits / splices / truncation: document | Exception | empty,
               never another exit path, never a past-the-end read, bounded work
  random       raw byte strings, same oracle
  cli          peltool -f <file> (forked, and real `python [-O]`): exit status
               0/1, no traceback, stdout empty or one JSON document
"""
import json
import os
import shutil
import tempfile

from hypothesis import strategies as st

from .. import c05lib
from .. import cli
from .. import model as M
from .. import strategies as S
from ..core import Property, Violation
from ..run import oworker

PROP = Property(
    'C05', 'fault_enumeration',
    rule=('Generated well-formed PELs (all section kinds) are damaged in enumerated or generated ways: EVERY proper '
          'prefix (all cut points for PELs <= 700 bytes, every section boundary +-1 plus 64 drawn cut points for '
          'larger ones); 1..4 byte edits at positions biased to the length/count/size fields the model knows, with '
          'replacement bytes biased to 0/1/0x7F/0x80/0xFF/neighbours and substructure tags; splices, deletions and '
          'truncation combined; raw random byte strings. Each damaged input is decoded with assertions on '
          '(in-process) and off (persistent python -O worker) under a read monitor on DataStream, a call-count bound '
          '(4*len+4096 DataStream calls) and a 20 s watchdog, and through peltool -f. Non-trivial = a prefix cut '
          'strictly inside a section body / a corruption whose outcome differs from the undamaged decode / a random '
          'input that gets past both headers.'),
    assumptions=['a prefix of a well-formed, selectable PEL must be rejected (exception or empty result)',
                 'results with and without -O need not be equal; each must satisfy the oracle on its own',
                 '"promptly" is decided by a DataStream-call bound and a coarse 20 s watchdog'],
    design_ref='4/C05')


def explain(r):
    return 'kind=%s exc=%s past_end=%s calls=%s' % (r.get('kind'), r.get('exc'), r.get('past_end'), r.get('calls'))


def check_prefix_result(res, data, mode):
    if res.get('timeout'):
        raise Violation('C05.hang', 'decoding prefixes (%s) did not finish: input %s' % (mode, data.hex()[:200]),
                        sig='C05.hang')
    if res['bad']:
        cut, r = res['bad'][0]
        if r['past_end']:
            raise Violation('C05.past-end', '%s: prefix of %d/%d bytes: a read past the end of the input was accepted '
                            '%r (%s)' % (mode, cut, len(data), r['past_end'][0], explain(r)),
                            sig='C05.past-end:%s' % mode)
        raise Violation('C05.prefix', '%s: the first %d of %d bytes of a well-formed PEL were not rejected: %s'
                        % (mode, cut, len(data), explain(r)), sig='C05.prefix:%s:%s' % (mode, r['kind']))
    return res['n']


@st.composite
def prefix_case(draw, tier):
    pel = draw(S.pel_model(max_sections=6 if tier == 'quick' else 12))
    extra = draw(st.lists(st.integers(0, 1 << 20), min_size=64, max_size=64))
    return {'pel': pel, 'extra_cuts': extra}


@PROP.given('prefixes', lambda tier: prefix_case(tier), quick=64, thorough=2400, shards_quick=8)
def prefixes(case, note):
    pel = case['pel']
    data = M.encode(pel)
    full = c05lib.outcome(data)
    if full['kind'] != 'doc':
        raise Violation('C05.wellformed', 'the undamaged PEL is not decoded: %s' % explain(full))
    if len(data) <= 700:
        cuts = None
    else:
        offs = M.offsets(pel)
        cs = set()
        for o in offs:
            cs.update((o - 1, o, o + 1))
        cs.update(c % len(data) for c in case['extra_cuts'])
        cuts = sorted(c for c in cs if 0 <= c < len(data))
    n1 = check_prefix_result(c05lib.prefixes(data, cuts), data, 'assertions on')
    res = oworker().request({'op': 'prefixes', 'data': data.hex(), 'cuts': cuts}, timeout=300)
    n2 = check_prefix_result(res, data, 'python -O')
    note.points = n1 + n2
    offs = set(M.offsets(pel))
    inside = [c for c in (range(len(data)) if cuts is None else cuts) if c not in offs]
    note.nontrivial_points = 2 * len(inside)
    note.extra_eval += n1 + n2
    note.sample = {'pel_hex': data, 'cut_points': 'all %d' % len(data) if cuts is None else cuts[:20]}
    note.label('all-cuts' if cuts is None else 'sampled-cuts')


# ---------------------------------------------------------------------------
# corruption
# ---------------------------------------------------------------------------

REPL = [0x00, 0x01, 0x7F, 0x80, 0xFF, 0xFE, 0x08, 0x07, ord('I'), ord('D'), ord('P'), ord('E'), ord('M'), ord('R'),
        ord('H'), ord('S'), ord('U')]


def interesting_offsets(pel):
    offs = M.offsets(pel)
    out = []
    for i, o in enumerate(offs[:-1]):
        out += [o, o + 1, o + 2, o + 3]          # section id + length
        if i == 0:
            out += [o + 24, o + 27]              # creator, section count
        elif i >= 2:
            s = pel['secs'][i - 2]
            if s['k'] == 'SRC':
                out += [o + 9, o + 11, o + 14, o + 15, o + 80, o + 81, o + 82, o + 83]
                if s['callouts'] is not None:
                    # size / flag bytes of every callout and of its FRU, PCE and MRU substructures
                    p = o + 84
                    for c in s['callouts']['list']:
                        out += [p, p + 1, p + 3]
                        q = p + 4 + len(c['loc'])
                        for part in (M.enc_fru(c['fru']) if c.get('fru') else b'',
                                     M.enc_pce(c['pce']) if c.get('pce') else b'',
                                     M.enc_mru(c['mru']) if c.get('mru') else b''):
                            if part:
                                out += [q, q + 1, q + 2, q + 3]
                                q += len(part)
                        p += len(M.enc_callout(c))
            elif s['k'] == 'LP':
                out += [o + 10, o + 11]
            elif s['k'] == 'EH':
                out += [o + 75]
            elif s['k'] == 'ED':
                out += [o + 8]
    return out


def data_at(pel, pos):
    d = M.encode(pel)
    return d[pos:pos + 2] if pos >= 0 else b''


@st.composite
def corruption_case(draw, tier):
    if draw(st.integers(0, 3)) == 0:
        # aim at callout substructures: an SRC with callouts that carry PCE / MRU
        def with_subs(c):
            c = dict(c)
            if c['pce'] is None and 4 + len(c['loc']) + len(M.enc_fru(c['fru'])) + 32 <= 200:
                c['pce'] = {'flags': 0, 'mtm': M.pad_text('9105-22A', 8), 'sn': M.pad_text('SN12345', 12),
                            'name': M.pad_text('pce', 4)}
            return c
        src = draw(S.src_section(callouts=True, max_callouts=3))
        src['callouts']['list'] = [with_subs(c) for c in src['callouts']['list']] or \
            [with_subs(draw(S.callout()))]
        others = draw(st.lists(st.one_of(S.ud_section(max_len=16), S.raw_section(max_len=16)), max_size=2))
        pel = draw(S.pel_model(secs=st.just([src] + others)))
        sub_only = True
    else:
        pel = draw(S.pel_model(max_sections=6))
        sub_only = False
    n = len(M.encode(pel))
    hot = [o for o in interesting_offsets(pel) if o < n]
    if sub_only:
        o2 = M.offsets(pel)[2]
        hot = [h for h in hot if o2 + 84 <= h < M.offsets(pel)[3]] or hot
    edits = []
    if sub_only and draw(st.booleans()):
        # one edit that makes a substructure size byte too small / too large
        sizes = [h for i, h in enumerate(hot) if data_at(pel, h - 2) in (b'ID', b'PE', b'MR')]
        if sizes:
            edits.append([draw(st.sampled_from(sizes)), draw(st.one_of(st.integers(0, 30), st.integers(0, 255))), 'set'])
    for _ in range(draw(st.integers(0 if edits else 1, 3))):
        pos = draw(st.one_of(st.sampled_from(hot), st.integers(0, n - 1)))
        val = draw(st.one_of(st.sampled_from(REPL), st.integers(0, 255)))
        mode = draw(st.sampled_from(['set', 'set', 'set', 'xor', 'inc', 'dec']))
        edits.append([pos, val, mode])
    splice = None
    if draw(st.integers(0, 4)) == 0:
        splice = [draw(st.integers(0, n)), draw(st.integers(0, 8)), draw(st.binary(max_size=12))]
    trunc = draw(st.one_of(st.none(), st.none(), st.integers(0, n)))
    return {'pel': pel, 'edits': edits, 'splice': splice, 'trunc': trunc, 'plugins': draw(st.booleans())}


def damage(case):
    data = bytearray(M.encode(case['pel']))
    for pos, val, mode in case['edits']:
        if pos >= len(data):
            continue
        if mode == 'set':
            data[pos] = val
        elif mode == 'xor':
            data[pos] ^= (val or 1)
        elif mode == 'inc':
            data[pos] = (data[pos] + 1) & 0xFF
        else:
            data[pos] = (data[pos] - 1) & 0xFF
    if case['splice']:
        at, dele, ins = case['splice']
        data[at:at + dele] = ins
    if case['trunc'] is not None:
        del data[case['trunc']:]
    return bytes(data)


def check_outcome(r, data, mode):
    if r.get('timeout') or r.get('kind') == 'hang':
        raise Violation('C05.hang', '%s: decoding does not terminate promptly (%s) for input %s'
                        % (mode, r.get('exc', 'no response in time'), data.hex()[:400]), sig='C05.hang:%s' % mode)
    if r['kind'] == 'base':
        raise Violation('C05.exit-path', '%s: decoding left through %s instead of an ordinary error; input %s'
                        % (mode, r['exc'], data.hex()[:400]), sig='C05.exit-path')
    if r['past_end']:
        raise Violation('C05.past-end', '%s: a read past the end of the input was accepted: %r (%s); input %s'
                        % (mode, r['past_end'][0], explain(r), data.hex()[:400]), sig='C05.past-end:%s' % mode)
    if r.get('stdout'):
        raise Violation('C05.stdout-noise', '%s: the decoder itself wrote %r to standard output, where the command '
                        'line prints the JSON document; input %s' % (mode, r['stdout'][:120], data.hex()[:400]),
                        sig='C05.stdout-noise')
    if r['kind'] == 'doc' and not r['json_ok']:
        raise Violation('C05.doc', '%s: a document was produced that is not valid JSON; input %s'
                        % (mode, data.hex()[:400]), sig='C05.doc-not-json')
    if r['kind'] not in ('doc', 'rejected', 'empty'):
        raise Violation('C05.outcome', '%s: unexpected outcome %r' % (mode, r))


@PROP.given('corruption', lambda tier: corruption_case(tier), quick=1500, thorough=60000, shards_quick=8)
def corruption(case, note):
    data = damage(case)
    orig = M.encode(case['pel'])
    r1 = c05lib.outcome(data, case['plugins'])
    check_outcome(r1, data, 'assertions on')
    r2 = oworker().request({'op': 'one', 'data': data.hex(), 'plugins': case['plugins']}, timeout=40)
    check_outcome(r2, data, 'python -O')
    note.extra_eval += 1
    note.nontrivial = data != orig and r1['kind'] != 'doc'
    note.label('outcome=' + r1['kind'], 'O-outcome=' + r2['kind'])
    if r1['kind'] != r2['kind']:
        note.label('differs-under-O')


random_bytes = st.one_of(
    st.binary(max_size=200),
    st.binary(max_size=120).map(lambda b: M.enc_ph(M.default_ph(count=5), 5) + b),
    st.binary(max_size=120).map(lambda b: M.enc_ph(M.default_ph(count=4), 4) + M.enc_uh(M.default_uh()) + b),
    st.tuples(st.sampled_from(['PS', 'SS', 'EH', 'MT', 'LP', 'UD', 'ED', 'ZZ']), st.integers(0, 0xFFFF),
              st.binary(max_size=150)).map(
        lambda t: M.enc_ph(M.default_ph(count=3), 3) + M.enc_uh(M.default_uh())
        + t[0].encode() + M.u16(t[1]) + t[2]),
)


@PROP.given('adversarial-content', lambda tier: exotic_input(), quick=200, thorough=6000, shards_quick=8)
def adversarial_content(data, note):
    r1 = c05lib.outcome(data, True)
    check_outcome(r1, data, 'assertions on')
    note.nontrivial = True
    note.label('outcome=' + r1['kind'])


@PROP.given('random-bytes', lambda tier: random_bytes, quick=1500, thorough=60000, shards_quick=8)
def random_input(data, note):
    r1 = c05lib.outcome(data, True)
    check_outcome(r1, data, 'assertions on')
    r2 = oworker().request({'op': 'one', 'data': data.hex(), 'plugins': True}, timeout=40)
    check_outcome(r2, data, 'python -O')
    note.extra_eval += 1
    note.nontrivial = len(data) > 72 and data[:2] == b'PH' and data[48:50] == b'UH'
    note.label('outcome=' + r1['kind'])


# ---------------------------------------------------------------------------
# command line
# ---------------------------------------------------------------------------

@st.composite
def exotic_input(draw):
    """damage that makes the decoder fail with something else than a range-check AssertionError:
    IndexError (valid word count > 9), AttributeError (undersized PCE), RecursionError (deeply nested JSON
    user data), UnicodeDecodeError (non UTF-8 text), KeyError / TypeError / ValueError candidates"""
    which = draw(st.sampled_from(['wordcount', 'wordcount', 'pce', 'deep-json', 'utf8', 'bad-json-type', 'lp-name',
                                  'backslashes', 'backslashes']))
    ph = M.default_ph(creator=ord('O'), eid=0x50000001)
    if which == 'backslashes':
        # perfectly decodable PELs whose text / dump lines carry long runs of one character that is special to
        # JSON or to regular expressions: decoding and printing must still be prompt
        ch = draw(st.sampled_from([b'\\', b'\\', b'"', b'\\"', b':', b'{', b' ']))
        n = draw(st.sampled_from([40, 64, 200, 1000]))
        kind = draw(st.sampled_from(['text', 'raw', 'json-string', 'mt']))
        if kind == 'text':
            sec = {'k': 'UD', 'ver': 1, 'sub': 3, 'comp': 0x2000, 'data': b'x' + ch * n + b'x'}
        elif kind == 'json-string':
            import json as _json
            sec = {'k': 'UD', 'ver': 1, 'sub': 1, 'comp': 0x2000,
                   'data': _json.dumps([(ch * n).decode('latin-1')]).encode()}
        elif kind == 'mt':
            sec = {'k': 'MT', 'ver': 1, 'sub': 0, 'comp': 0, 'mtm': (ch * 8)[:8], 'sn': (ch * 12)[:12]}
        else:
            sec = {'k': 'RAW', 'id': 0x5A5A, 'ver': 0, 'sub': 0, 'comp': 0, 'data': ch * n}
        return M.encode(M.minimal_pel([sec], ph=ph))
    if which == 'wordcount':
        src = M.default_src(wc=draw(st.one_of(st.integers(10, 255), st.sampled_from([10, 11, 0x10, 0x80, 0xFF]))))
        return M.encode(M.minimal_pel([src], ph=ph))
    if which == 'pce':
        c = {'flags': 0x28, 'prio': 0x48, 'loc': b'', 'fru': {'flags': 0x18, 'pn': b'12345678', 'ccin': b'', 'sn': b''},
             'pce': {'flags': 0, 'mtm': b'9105-22A', 'sn': b'SN1234567890', 'name': b'pce\0'}, 'mru': None}
        pel = M.minimal_pel([M.default_src(flags=1, callouts={'ssid': 0xC0, 'ssflags': 0, 'list': [c]})], ph=ph)
        data = bytearray(M.encode(pel))
        off = M.offsets(pel)[2] + 84 + 4 + len(M.enc_fru(c['fru']))
        data[off + 2] = draw(st.integers(0, 23))
        return bytes(data)
    if which == 'deep-json':
        n = draw(st.sampled_from([1500, 5000, 20000]))
        ud = {'k': 'UD', 'ver': 1, 'sub': 1, 'comp': 0x2000, 'data': b'[' * n + b']' * n}
        return M.encode(M.minimal_pel([ud], ph=ph))
    if which == 'utf8':
        pel = M.minimal_pel([M.default_src()], ph=ph)
        data = bytearray(M.encode(pel))
        data[draw(st.sampled_from([24, M.offsets(pel)[2] + 48, M.offsets(pel)[2] + 50]))] = draw(st.sampled_from([0x80, 0xFF, 0xC0]))
        return bytes(data)
    if which == 'bad-json-type':
        ud = {'k': 'UD', 'ver': 1, 'sub': 1, 'comp': 0x2000,
              'data': draw(st.sampled_from([b'NaN', b'{"a": 1', b'\xff\xfe', b'"\\ud800"', b'1e99999', b'-']))}
        return M.encode(M.minimal_pel([ud], ph=ph))
    lp = {'k': 'LP', 'ver': 1, 'sub': 0, 'comp': 0, 'pid': 1, 'logid': 2, 'name': b'\xff\xfe\x00\x00',
          'targets': [1, 2, 3], 'pad': 0}
    return M.encode(M.minimal_pel([lp], ph=ph))


@st.composite
def cli_case(draw, tier):
    kind = draw(st.sampled_from(['prefix', 'prefix', 'corrupt', 'corrupt', 'random', 'intact', 'exotic', 'exotic']))
    c = {'kind': kind, 'runner': draw(st.sampled_from(['forked', 'forked', 'forked', 'real', 'real-O'])),
         'hex': draw(st.integers(0, 5)) == 0, 'by_id': draw(st.integers(0, 3)) == 0,
         # the file name ends up in diagnostics: characters special to %-, {}- and shell-style formatting
         'fname': draw(st.sampled_from([None, None, 'PEL%20copy_50000001.bin', '100%_50000001.pel',
                                        'dump%d_50000001.pel', 'a{b}_50000001.pel', '{0}_50000001', 'sp ace_50000001.pel',
                                        '%s%s%s_50000001', 'q\'uote"_50000001', '\u00fcn\u00ef_50000001.pel'])),
         'skip_plugins': draw(st.integers(0, 3)) == 0,
         # the same barrier in the directory modes: the damaged file next to 0-3 further damaged copies
         'dirmode': draw(st.sampled_from([None, None, None, '-a', '-j', '-l', '-n'])),
         'copies': draw(st.integers(0, 3))}
    if kind == 'random':
        c['data'] = draw(random_bytes)
    elif kind == 'exotic':
        c['data'] = draw(exotic_input())
    else:
        cc = draw(corruption_case(tier))
        if kind == 'prefix':
            n = len(M.encode(cc['pel']))
            cc['edits'], cc['splice'], cc['trunc'] = [], None, draw(st.integers(0, max(n - 1, 0)))
        elif kind == 'intact':
            cc['edits'], cc['splice'], cc['trunc'] = [], None, None
        c['case'] = cc
    return c


def check_cli_result(r, what, must_reject, hexmode, data, single_file=True):
    if r.status == 'timeout':
        raise Violation('C05.hang', '%s did not terminate; input %s' % (what, data.hex()[:400]), sig='C05.cli.hang')
    if r.status not in (0, 1):
        raise Violation('C05.cli-status', '%s exited with status %r: %s; input %s' % (what, r.status, r.brief(),
                                                                                    data.hex()[:400]),
                        sig='C05.cli.status')
    if 'Traceback (most recent call last)' in r.err:
        raise Violation('C05.cli-traceback', '%s printed a traceback: %s; input %s'
                        % (what, r.err[-600:], data.hex()[:400]), sig='C05.cli.traceback')
    out = r.out
    if out.strip():
        if must_reject:
            raise Violation('C05.cli-stdout', '%s printed %r on stdout for a truncated PEL' % (what, out[:200]),
                            sig='C05.cli.stdout-on-reject')
        if hexmode:
            if 'PEL Begin' not in out:
                raise Violation('C05.cli-stdout', '%s -x printed something else than a hex block: %r'
                                % (what, out[:200]), sig='C05.cli.stdout')
        else:
            try:
                json.loads(out)
            except ValueError:
                raise Violation('C05.cli-stdout', '%s printed on stdout something that is not a JSON document: %r; '
                                'stderr %r; input %s' % (what, out[:300], r.err[:200], data.hex()[:400]),
                                sig='C05.cli.stdout-not-json')
    if single_file and r.status == 1 and out.strip():
        raise Violation('C05.cli-stdout', '%s failed with status 1 but printed %r' % (what, out[:200]),
                        sig='C05.cli.stdout-on-failure')


@PROP.given('cli', lambda tier: cli_case(tier), quick=300, thorough=12000, shards_quick=8)
def cli_check(case, note):
    if case['kind'] in ('random', 'exotic'):
        data = case['data']
        must_reject = False
    else:
        data = damage(case['case'])
        must_reject = case['kind'] == 'prefix'
    d = tempfile.mkdtemp(prefix='c05')
    try:
        path = os.path.join(d, case.get('fname') or 'x_50000001.pel')
        with open(path, 'wb') as f:
            f.write(data)
        # the same single-file barrier serves --file and --id
        argv = (['-p', d, '-i', '50000001'] if case.get('by_id') else ['-f', path]) + (['-x'] if case['hex'] else [])
        dirmode = case.get('dirmode')
        if dirmode:
            # directory modes: every malformed file is reported and skipped, the exit status stays 0 or 1
            for k in range(case.get('copies', 0)):
                with open(os.path.join(d, 'copy%d_5000000%d' % (k, k + 2)), 'wb') as f:
                    f.write(data[:max(len(data) - 1 - k, 0)] if k % 2 else data)
            argv = ['-p', d, dirmode] + (['-x'] if case['hex'] and dirmode in ('-a', '-l') else [])
            if dirmode == '-j':
                argv += ['-o', os.path.join(d, 'out')]
                os.mkdir(os.path.join(d, 'out'))
            must_reject = False
        if case.get('skip_plugins'):
            argv.append('-P')
        if case['runner'] == 'forked':
            r = cli.forked(argv, timeout=40)
            what = 'peltool -f'
        else:
            r = cli.real(argv, optimize=(case['runner'] == 'real-O'), timeout=60)
            what = 'python %speltool.py -f' % ('-O ' if case['runner'] == 'real-O' else '')
        if dirmode:
            what = what.replace(' -f', ' ' + dirmode) + ' (directory of %d damaged files)' % (1 + case.get('copies', 0))
        check_cli_result(r, what, must_reject, '-x' in argv, data, single_file=not dirmode)
        note.label(case['kind'], case['runner'], 'status=%s' % r.status, 'mode=%s' % (dirmode or 'single-file'))
        note.nontrivial = case['kind'] != 'intact'
    finally:
        shutil.rmtree(d, ignore_errors=True)


# ---------------------------------------------------------------------------
# coverage-guided bytes (atheris), thorough tier
# ---------------------------------------------------------------------------

def seed_corpus(seed, n=48):
    """encoded well-formed PELs as the starting corpus"""
    import hypothesis
    from hypothesis import given, settings, HealthCheck, Phase
    out = []

    @hypothesis.seed(seed)
    @settings(max_examples=n, database=None, deadline=None, phases=[Phase.generate],
              suppress_health_check=list(HealthCheck))
    @given(S.pel_model(max_sections=5))
    def collect(pel):
        out.append(M.encode(pel))
    collect()
    return out


@PROP.custom('coverage-guided')
def coverage_guided(ctx):
    from .. import fuzz
    from ..core import FacetResult
    if ctx.tier == 'quick':
        r = FacetResult('coverage-guided')
        r.notes.append('coverage-guided campaign runs in the thorough tier only')
        return r
    return fuzz.campaign('coverage-guided', 'pel', seed_corpus(ctx.seed), runs=250000, seed=ctx.seed, jobs=6,
                         with_O=True, sig_prefix='C05.fuzz')


def replay_coverage_guided(case):
    data = case['data']
    if case.get('optimize'):
        r = oworker().request({'op': 'one', 'data': data.hex(), 'plugins': True}, timeout=60)
        check_outcome(r, data, 'python -O')
    else:
        check_outcome(c05lib.outcome(data, True), data, 'assertions on')
