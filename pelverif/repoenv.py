"""Locates the code under test and puts it first on sys.path.

The code under test is always <repo>/modules of the *current working tree*.
<repo> defaults to /repo; VERIF_REPO (harness-only, used by the mutation
self-test, never set in registered commands) points it at a scratch copy.
"""
import os
import sys

VERIF_DIR = os.path.dirname(os.path.dirname(os.path.abspath(__file__)))
REPO = os.path.abspath(os.environ.get('VERIF_REPO', '/repo'))
MODULES = os.path.join(REPO, 'modules')
PELTOOL = os.path.join(MODULES, 'pel', 'peltool', 'peltool.py')
FIXTURES = os.path.join(VERIF_DIR, 'fixtures')

sys.dont_write_bytecode = True
os.environ.setdefault('PYTHONDONTWRITEBYTECODE', '1')
os.environ.setdefault('PYTHONHASHSEED', '0')


def activate(with_registry_fixture: bool = False):
    """Put <repo>/modules first on sys.path (idempotent)."""
    if not os.path.isdir(MODULES):
        raise RuntimeError('code under test not found at %s' % MODULES)
    # drop any other copy of the modules directory (e.g. the editable .pth)
    sys.path[:] = [p for p in sys.path
                   if not (p.rstrip('/').endswith('/modules')
                           and os.path.abspath(p) != MODULES
                           and os.path.isdir(os.path.join(p, 'pel')))]
    if MODULES in sys.path:
        sys.path.remove(MODULES)
    sys.path.insert(0, MODULES)
    if with_registry_fixture:
        reg = os.path.join(FIXTURES, 'site')
        if reg not in sys.path:
            sys.path.insert(1, reg)


def child_env(extra_path=(), with_registry_fixture=False):
    """Environment for real sub-processes executing repo code."""
    env = dict(os.environ)
    paths = [MODULES]
    if with_registry_fixture:
        paths.append(os.path.join(FIXTURES, 'site'))
    paths.extend(extra_path)
    env['PYTHONPATH'] = os.pathsep.join(paths)
    env['PYTHONDONTWRITEBYTECODE'] = '1'
    env['PYTHONHASHSEED'] = '0'
    env.pop('COVERAGE_PROCESS_START', None)
    env.pop('COVERAGE_PROCESS_CONFIG', None)
    return env
