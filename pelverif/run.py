"""Runners for the code under test: in-process decode with monitors, forked
CLI, real sub-process CLI.
"""
import contextlib
import io
import json
import os
import subprocess
import sys
import tempfile
import traceback

from . import repoenv
from .core import Violation, HarnessError

_mods = {}


def mods():
    """Imports (once) and returns the repo modules used by the harness."""
    if not _mods:
        repoenv.activate()
        import pel.datastream as datastream
        import pel.hexdump as hexdump
        # importing peltool prints nothing; comp_id may print one diagnostic on
        # first use when pel_registry is absent
        import pel.peltool.peltool as peltool
        import pel.peltool.config as config
        import pel.peltool.src as src
        import pel.peltool.comp_id as comp_id
        import pel.peltool.parse_user_data as parse_user_data
        import pel.peltool.pel_values as pel_values
        for name, m in list(locals().items()):
            _mods[name] = m
        root = os.path.realpath(repoenv.MODULES)
        for m in _mods.values():
            f = os.path.realpath(getattr(m, '__file__', '') or '')
            if not f.startswith(root + os.sep):
                raise HarnessError('module %s was imported from %s, not from %s'
                                   % (m.__name__, f, root))
    return _mods


class Mods:
    def __getattr__(self, name):
        return mods()[name]


R = Mods()


def make_config(**kw):
    c = R.config.Config()
    for k, v in kw.items():
        if not hasattr(c, k):
            raise HarnessError('Config has no attribute %r' % k)
        setattr(c, k, v)
    return c


def repo_frame(tb):
    """innermost traceback frame that lies in the code under test"""
    root = os.path.realpath(repoenv.MODULES)
    best = None
    for fs in traceback.extract_tb(tb):
        if os.path.realpath(fs.filename).startswith(root):
            best = '%s:%s' % (os.path.relpath(os.path.realpath(fs.filename), root), fs.name)
    return best


@contextlib.contextmanager
def captured():
    """Captures sys.stdout / sys.stderr of in-process repo calls."""
    out, err = io.StringIO(), io.StringIO()
    old = sys.stdout, sys.stderr
    sys.stdout, sys.stderr = out, err
    try:
        yield out, err
    finally:
        sys.stdout, sys.stderr = old


class Outcome:
    """Result of one in-process decode."""
    __slots__ = ('eid', 'text', 'exc', 'exc_frame', 'stdout', 'stderr', 'index', 'starts', 'doc')

    def __init__(self):
        self.eid = self.text = self.exc = self.exc_frame = None
        self.stdout = self.stderr = ''
        self.index = None
        self.starts = []
        self.doc = None

    @property
    def rejected(self):
        return self.exc is not None or not self.text

    def describe(self):
        if self.exc is not None:
            return 'raised %s: %s (at %s)' % (type(self.exc).__name__, self.exc, self.exc_frame)
        if not self.text:
            return 'returned the empty result; stderr=%r' % self.stderr[:200]
        return 'document with keys %s' % (list(self.doc) if isinstance(self.doc, dict) else '?')


def decode(data, config=None, record_starts=False):
    """parsePEL(stream, config, False) on data; never raises for repo
    failures - they are reported in the Outcome."""
    m = mods()
    peltool = m['peltool']
    if config is None:
        config = make_config()
    o = Outcome()
    stream = m['datastream'].DataStream(data, byte_order='big', is_signed=False)
    orig = peltool.parseHeader
    if record_starts:
        def rec(s):
            o.starts.append(s.index)
            return orig(s)
        peltool.parseHeader = rec
    try:
        with captured() as (out, err):
            try:
                o.eid, o.text = peltool.parsePEL(stream, config, False)
            except Exception as e:        # ordinary rejection
                o.exc = e
                o.exc_frame = repo_frame(e.__traceback__)
            except BaseException as e:    # SystemExit etc: reported by callers
                if isinstance(e, KeyboardInterrupt):
                    raise
                o.exc = e
                o.exc_frame = repo_frame(e.__traceback__)
        o.stdout, o.stderr = out.getvalue(), err.getvalue()
    finally:
        peltool.parseHeader = orig
    o.index = stream.index
    if o.exc is None and o.text:
        try:
            o.doc = json.loads(o.text)
        except ValueError:
            o.doc = None
    return o


def must_decode(data, config=None, oracle='decode', record_starts=False):
    """decode() of a well-formed PEL: any rejection is a violation."""
    o = decode(data, config, record_starts)
    if o.exc is not None:
        raise Violation(oracle, 'well-formed PEL was rejected: %s' % o.describe(),
                        sig='%s:rejected:%s:%s' % (oracle, type(o.exc).__name__, o.exc_frame))
    if not o.text:
        raise Violation(oracle, 'well-formed, selectable PEL produced no document: %s'
                        % o.describe(), sig='%s:empty' % oracle)
    return o


def need(d, key, where='document'):
    if not isinstance(d, dict) or key not in d:
        raise Violation('shape', '%s has no entry %r (has %s)' % (
            where, key, list(d) if isinstance(d, dict) else type(d).__name__),
            sig='shape:missing:%s' % key)
    return d[key]


_repo_mods = {}


def reset_caches():
    """Puts the decoder's module-level state back to what a fresh interpreter
    has after import (used between cases, at the top of fuzz iterations and in
    forked CLI children so that they behave like a new process).

    Name-agnostic on purpose: every module-level import cache of the code under
    test (a dict whose values are modules or None) is emptied and every memoised
    function (anything with cache_clear) is reset, whatever it is called - a
    refactoring that renames a cache must not make the harness see stale state.
    """
    import types
    m = mods()
    if _repo_mods.get('n') != len(sys.modules):
        root = os.path.realpath(repoenv.MODULES) + os.sep
        found = []
        for name, mod in list(sys.modules.items()):
            f = getattr(mod, '__file__', None)
            if f and os.path.realpath(f).startswith(root):
                found.append(mod)
        _repo_mods['n'] = len(sys.modules)
        _repo_mods['mods'] = found
    for mod in _repo_mods['mods']:
        for attr, obj in list(vars(mod).items()):
            if attr.startswith('__'):
                continue
            try:
                if isinstance(obj, dict) and obj and all(isinstance(k, str) for k in obj) and \
                        all(v is None or isinstance(v, types.ModuleType) for v in obj.values()):
                    obj.clear()
                elif callable(getattr(obj, 'cache_clear', None)) and not isinstance(obj, type):
                    obj.cache_clear()
                elif isinstance(obj, type):
                    # memoised methods / static helpers on classes
                    for cattr, cobj in list(vars(obj).items()):
                        if callable(getattr(cobj, 'cache_clear', None)):
                            cobj.cache_clear()
            except Exception:
                pass
    ci = m['comp_id']
    if isinstance(getattr(ci, 'componentIDs', None), dict):
        ci.componentIDs.clear()
    if hasattr(ci, 'attemptedToParseCompIDs'):
        ci.attemptedToParseCompIDs = False


def main_inprocess(argv, patches=None):
    """Calls peltool.main() in this process with sys.argv = argv, module
    attributes of peltool temporarily replaced by `patches`, std streams
    captured.  Returns (status, stdout, stderr); SystemExit is mapped like the
    interpreter does; other exceptions propagate as the repo raised them."""
    m = mods()
    peltool = m['peltool']
    saved = {}
    old_argv = sys.argv
    status = 0
    for k, v in (patches or {}).items():
        saved[k] = getattr(peltool, k)
        setattr(peltool, k, v)
    try:
        sys.argv = [repoenv.PELTOOL] + list(argv)
        with captured() as (out, err):
            try:
                peltool.main()
            except SystemExit as e:
                c = e.code
                if c is None:
                    status = 0
                elif isinstance(c, int):
                    status = c & 0xFF
                else:
                    err.write(str(c) + '\n')
                    status = 1
        return status, out.getvalue(), err.getvalue()
    finally:
        sys.argv = old_argv
        for k, v in saved.items():
            setattr(peltool, k, v)


def guard(oracle, fn, *args, **kw):
    """Calls repo code that the property says must handle every input; an
    escaping exception is a violation, not a harness error."""
    try:
        with captured():
            return fn(*args, **kw)
    except Exception as e:
        raise Violation(oracle, '%s raised %s: %s (at %s)' % (
            getattr(fn, '__name__', 'call'), type(e).__name__, e, repo_frame(e.__traceback__)),
            sig='%s:raised:%s' % (oracle, type(e).__name__))


class OWorker:
    """client side of the persistent `python -O` worker"""

    def __init__(self):
        import subprocess
        env = repoenv.child_env()
        env['PYTHONPATH'] = repoenv.VERIF_DIR + os.pathsep + env['PYTHONPATH']
        if os.environ.get('VERIF_REPO'):
            env['VERIF_REPO'] = os.environ['VERIF_REPO']
        self.p = subprocess.Popen([sys.executable, '-O', '-W', 'ignore', '-m', 'pelverif.oworker'],
                                  cwd=repoenv.VERIF_DIR, env=env, stdin=subprocess.PIPE,
                                  stdout=subprocess.PIPE, stderr=subprocess.DEVNULL, text=True, bufsize=1)
        hello = self._read(60)
        if not hello or not hello.get('ready') or hello.get('debug') is not False:
            raise HarnessError('-O worker did not start with assertions disabled: %r' % (hello,))

    def _read(self, timeout):
        import select
        r, _, _ = select.select([self.p.stdout], [], [], timeout)
        if not r:
            return None
        line = self.p.stdout.readline()
        if not line:
            return None
        return json.loads(line)

    def request(self, req, timeout=120):
        try:
            self.p.stdin.write(json.dumps(req) + '\n')
            self.p.stdin.flush()
        except BrokenPipeError:
            self.close()
            raise HarnessError('-O worker died')
        resp = self._read(timeout)
        if resp is None:
            self.close()
            return {'timeout': True}
        if 'worker_error' in resp:
            raise HarnessError('-O worker failed: %s' % resp['worker_error'])
        return resp

    def close(self):
        try:
            self.p.kill()
            self.p.wait(5)
        except Exception:
            pass


_oworker = None


def oworker():
    global _oworker
    if _oworker is None or _oworker.p.poll() is not None:
        _oworker = OWorker()
        import atexit
        atexit.register(_oworker.close)
    return _oworker


def in_fork(fn, *args, timeout=60):
    """runs fn(*args) in a forked child, so that whatever the code under test caches or mutates while doing so is
    gone afterwards (cases stay independent of each other and replay alike in a fresh process).  The child's
    result (picklable), a Violation or a harness error travels back through a pipe."""
    import pickle
    import select
    rfd, wfd = os.pipe()
    pid = os.fork()
    if pid == 0:
        try:
            os.close(rfd)
            try:
                msg = ('ok', fn(*args))
            except Violation as v:
                msg = ('violation', v.oracle, v.message, v.sig)
            except BaseException:
                msg = ('error', traceback.format_exc())
            with os.fdopen(wfd, 'wb') as w:
                pickle.dump(msg, w)
        finally:
            os._exit(0)
    os.close(wfd)
    chunks = []
    try:
        while True:
            ready, _, _ = select.select([rfd], [], [], timeout)
            if not ready:
                os.kill(pid, 9)
                raise Violation('hang', 'no result from the forked case after %d s' % timeout, sig='hang')
            b = os.read(rfd, 1 << 16)
            if not b:
                break
            chunks.append(b)
    finally:
        os.close(rfd)
        os.waitpid(pid, 0)
    if not chunks:
        raise HarnessError('forked case died without a result')
    msg = pickle.loads(b''.join(chunks))
    if msg[0] == 'ok':
        return msg[1]
    if msg[0] == 'violation':
        raise Violation(msg[1], msg[2], msg[3])
    raise HarnessError('forked case failed:\n' + msg[1])
