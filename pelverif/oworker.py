"""Persistent worker executed as `python -O -m pelverif.oworker`: decodes
inputs with assertions disabled.  Line protocol: one JSON request per line on
stdin, one JSON response per line on stdout."""
import json
import os
import sys


def main():
    from . import repoenv
    repoenv.activate()
    from . import c05lib
    real_out = os.fdopen(os.dup(1), 'w')
    # anything the repo prints goes nowhere near the protocol channel
    devnull = os.open(os.devnull, os.O_WRONLY)
    os.dup2(devnull, 1)
    real_out.write(json.dumps({'ready': True, 'optimize': sys.flags.optimize, 'debug': __debug__}) + '\n')
    real_out.flush()
    for line in sys.stdin:
        line = line.strip()
        if not line:
            continue
        try:
            req = json.loads(line)
            data = bytes.fromhex(req['data'])
            if req['op'] == 'prefixes':
                resp = c05lib.prefixes(data, req.get('cuts'))
            else:
                resp = c05lib.outcome(data, req.get('plugins', False))
        except BaseException as e:      # harness failure inside the worker
            import traceback
            resp = {'worker_error': traceback.format_exc()}
        real_out.write(json.dumps(resp) + '\n')
        real_out.flush()


if __name__ == '__main__':
    main()
