"""Command-line runners.

forked():  fork the (already warmed-up) harness process and execute the
           compiled source of <repo>/modules/pel/peltool/peltool.py as
           __main__ in the child, with fds 1/2 redirected.  Maps SystemExit and
           escaping exceptions to exit statuses exactly as the interpreter
           does.  ~10-30 ms per run.
real():    a genuine `python [-O] peltool.py ...` sub-process (~100 ms); used
           for samples of every CLI check to validate the forked runner, and
           for everything that depends on interpreter start-up/shutdown.
"""
import io
import os
import subprocess
import sys
import tempfile
import traceback

from . import repoenv
from .core import HarnessError
from . import run as _run

_code = {}
_SHM = '/dev/shm' if os.path.isdir('/dev/shm') and os.access('/dev/shm', os.W_OK) else None


class CliResult:
    __slots__ = ('status', 'stdout', 'stderr', 'events')

    def __init__(self, status, stdout, stderr, events=None):
        self.status = status
        self.stdout = stdout
        self.stderr = stderr
        self.events = events

    @property
    def out(self):
        return self.stdout.decode('utf-8', 'replace')

    @property
    def err(self):
        return self.stderr.decode('utf-8', 'replace')

    def brief(self):
        return 'status=%s stdout=%r stderr=%r' % (self.status, self.out[:300], self.err[:300])


def _script_code(path):
    st = os.stat(path)
    key = (path, st.st_mtime_ns, st.st_size)
    if key not in _code:
        with open(path, 'rb') as f:
            src = f.read()
        _code.clear()
        _code[key] = compile(src, path, 'exec')
    return _code[key]


def warm():
    """import the repo modules in this process so forked children start hot"""
    _run.mods()
    _script_code(repoenv.PELTOOL)


def _child_main(argv, script, cwd, hook, module_main):
    """Runs in the forked child; never returns."""
    status = 0
    try:
        if cwd:
            os.chdir(cwd)
        # fresh text layers over fd 1 / 2 like a new interpreter has
        sys.stdout = io.TextIOWrapper(io.BufferedWriter(io.FileIO(1, 'w', closefd=False)),
                                      encoding='utf-8', errors='strict', line_buffering=False)
        sys.stderr = io.TextIOWrapper(io.BufferedWriter(io.FileIO(2, 'w', closefd=False)),
                                      encoding='utf-8', errors='backslashreplace',
                                      line_buffering=True)
        sys.__stdout__, sys.__stderr__ = sys.stdout, sys.stderr
        sys.argv = [script] + list(argv)
        _run.reset_caches()
        if hook is not None:
            hook()
        try:
            if module_main is not None:
                module_main()
            else:
                g = {'__name__': '__main__', '__file__': script, '__builtins__': __builtins__,
                     '__doc__': None, '__package__': None}
                exec(_script_code(script), g)
        except SystemExit as e:
            c = e.code
            if c is None:
                status = 0
            elif isinstance(c, int):
                status = c & 0xFF
            else:
                try:
                    sys.stderr.write(str(c) + '\n')
                except Exception:
                    pass
                status = 1
        except BaseException:
            try:
                traceback.print_exc(file=sys.stderr)
            except Exception:
                pass
            status = 1
        # interpreter shutdown: flush std streams; a failing flush of stdout
        # gives exit status 120
        try:
            sys.stdout.flush()
        except Exception as e:
            try:
                sys.stderr.write('Exception ignored on flushing sys.stdout:\n%s: %s\n'
                                 % (type(e).__name__, e))
            except Exception:
                pass
            if status == 0:
                status = 120
        try:
            sys.stderr.flush()
        except Exception:
            pass
    except BaseException:
        status = 70
        try:
            os.write(2, ('HARNESS child failure:\n' + traceback.format_exc()).encode())
        except Exception:
            pass
    os._exit(status)


def forked(argv, cwd=None, hook=None, stdout_path=None, script=None, module_main=None,
           timeout=60):
    """Executes peltool (or another script / callable) in a forked child.

    hook: optional callable executed in the child before the script runs
          (used to install fault injectors / event recorders).
    stdout_path: file to use as the child's stdout (e.g. /dev/full).
    """
    script = script or repoenv.PELTOOL
    warm()
    fo = open(stdout_path, 'wb', buffering=0) if stdout_path else tempfile.TemporaryFile(dir=_SHM)
    fe = tempfile.TemporaryFile(dir=_SHM)
    try:
        sys.stdout.flush()
        sys.stderr.flush()
        pid = os.fork()
        if pid == 0:
            try:
                os.dup2(fo.fileno(), 1)
                os.dup2(fe.fileno(), 2)
                devnull = os.open(os.devnull, os.O_RDONLY)
                os.dup2(devnull, 0)
            except BaseException:
                os._exit(71)
            _child_main(argv, script, cwd, hook, module_main)
        status = _wait(pid, timeout)
        out = b''
        if not stdout_path:
            fo.seek(0)
            out = fo.read()
        fe.seek(0)
        err = fe.read()
    finally:
        fo.close()
        fe.close()
    if status in (70, 71):
        raise HarnessError('forked CLI child failed: %s' % err.decode('utf-8', 'replace')[-2000:])
    return CliResult(status, out, err)


def _wait(pid, timeout):
    import time
    t0 = time.monotonic()
    delay = 0.0005
    while True:
        p, st = os.waitpid(pid, os.WNOHANG)
        if p == pid:
            if os.WIFEXITED(st):
                return os.WEXITSTATUS(st)
            return -os.WTERMSIG(st)
        if time.monotonic() - t0 > timeout:
            try:
                os.kill(pid, 9)
            except OSError:
                pass
            os.waitpid(pid, 0)
            return 'timeout'
        time.sleep(delay)
        delay = min(delay * 2, 0.02)


def real(argv, cwd=None, optimize=False, registry_fixture=False, extra_path=(), timeout=120,
         script=None, stdout=None, preexec_fn=None, module=None, python=None):
    """A genuine interpreter run of peltool.py (or `-m module`)."""
    cmd = [python or sys.executable]
    if optimize:
        cmd.append('-O')
    if module:
        cmd += ['-m', module]
    else:
        cmd.append(script or repoenv.PELTOOL)
    cmd += list(argv)
    try:
        p = subprocess.run(cmd, cwd=cwd, env=repoenv.child_env(extra_path, registry_fixture),
                           stdin=subprocess.DEVNULL,
                           stdout=None if stdout is False else (stdout if stdout is not None else subprocess.PIPE),
                           stderr=subprocess.PIPE, timeout=timeout, preexec_fn=preexec_fn)
    except subprocess.TimeoutExpired as e:
        return CliResult('timeout', e.stdout or b'', e.stderr or b'')
    return CliResult(p.returncode, p.stdout or b'', p.stderr or b'')
