"""Independent PEL model and encoder.

Written from the PEL layout (Platform Event Log, as used by OpenBMC
phosphor-logging) and from the property statements - never by calling the
decoders under test.  A model is plain JSON-able data (dict / list / int /
bytes).

Layout summary (all integers big-endian):

  section header (8):  id(2) length(2) version(1) subtype(1) component(2)
  PH  (48): hdr, create ts(8), commit ts(8), creator(1), r(1), r(1),
            section count(1), OpenBMC log id(4), creator version(8),
            platform log id(4), entry id(4)
  UH  (24): hdr, subsystem(1), scope(1), severity(1), type(1), r(4),
            problem domain(1), vector(1), action flags(2), states(4)
  PS/SS   : hdr, version(1), flags(1), r(1), word count(1), r(2), size(2),
            hex words 2..9 (8x4), ascii string(32) [, callout subsection]
            callout subsection: id(1) flags(1) length in words(2), callouts
            callout: size(1) flags(1) priority(1) loc code len(1) loc code,
                     FRU identity 'ID', [PCE identity 'PE'], [MRU 'MR']
  EH      : hdr, mtm(8), sn(12), fw ver(16), subsys fw ver(16), r(4),
            ref time(8), r(3), symptom id len(1), symptom id
  MT  (28): hdr, mtm(8), sn(12)
  LP      : hdr, partition id(2), name len(1), target count(1), log id(4),
            name, targets (2 each), 2 pad bytes if the target count is odd
  UD      : hdr, payload
  ED      : hdr, creator(1), r(1), r(2), payload
  other   : hdr, payload
"""
import struct

HDR = 8


def u8(v):
    return struct.pack('>B', v & 0xFF)


def u16(v):
    return struct.pack('>H', v & 0xFFFF)


def u32(v):
    return struct.pack('>I', v & 0xFFFFFFFF)


def u64(v):
    return struct.pack('>Q', v & 0xFFFFFFFFFFFFFFFF)


def sec_header(sid, length, ver, sub, comp):
    if isinstance(sid, str):
        sid = (ord(sid[0]) << 8) | ord(sid[1])
    return u16(sid) + u16(length) + u8(ver) + u8(sub) + u16(comp)


def sec_id(sec):
    k = sec['k']
    if k == 'SRC':
        sid = sec['id']
    elif k == 'RAW':
        return sec['id']
    else:
        sid = k
    return (ord(sid[0]) << 8) | ord(sid[1])


# ---------------------------------------------------------------------------
# bodies
# ---------------------------------------------------------------------------

def enc_fru(fru):
    f = fru['flags']
    body = b''
    if f & 0x08 or f & 0x02:
        body += fru['pn']
    if f & 0x04:
        body += fru['ccin']
    if f & 0x01:
        body += fru['sn']
    return b'ID' + u8(4 + len(body)) + u8(f) + body


def enc_pce(pce):
    body = pce['mtm'] + pce['sn'] + pce['name']
    return b'PE' + u8(4 + len(body)) + u8(pce['flags']) + body


def enc_mru(mru):
    n = len(mru['list'])
    body = u32(mru['r4'])
    for prio, mid in mru['list']:
        body += u32(prio) + u32(mid)
    return b'MR' + u8(4 + len(body)) + u8(((mru['fhi'] & 0xF) << 4) | n) + body


def enc_callout(c):
    subs = b''
    if c.get('fru') is not None:
        subs += enc_fru(c['fru'])
    if c.get('pce') is not None:
        subs += enc_pce(c['pce'])
    if c.get('mru') is not None:
        subs += enc_mru(c['mru'])
    loc = c['loc']
    size = 4 + len(loc) + len(subs)
    return u8(size) + u8(c['flags']) + u8(c['prio']) + u8(len(loc)) + loc + subs


def enc_callouts(cs):
    body = b''.join(enc_callout(c) for c in cs['list'])
    total = 4 + len(body)
    # length is counted in 4-byte words; bodies are kept word aligned by the
    # generator (location codes and PCE names padded to multiples of 4)
    return u8(cs['ssid']) + u8(cs['ssflags']) + u16(total // 4) + body


def body_src(s):
    words = b''.join(u32(w) for w in s['words'])
    co = enc_callouts(s['callouts']) if s.get('callouts') is not None else b''
    size = 72 + len(co)
    return (u8(s['sver']) + u8(s['flags']) + u8(s['r1']) + u8(s['wc']) + u16(s['r2'])
            + u16(size) + words + s['ascii'] + co)


def body_eh(s):
    return (s['mtm'] + s['sn'] + s['fw'] + s['subfw'] + u32(s['r4']) + s['ref']
            + u8(s['r1']) + u8(s['r2']) + u8(s['r3']) + u8(len(s['symptom'])) + s['symptom'])


def body_mt(s):
    return s['mtm'] + s['sn']


def body_lp(s):
    n = len(s['targets'])
    out = u16(s['pid']) + u8(len(s['name'])) + u8(n) + u32(s['logid']) + s['name']
    for t in s['targets']:
        out += u16(t)
    if n % 2:
        out += u16(s.get('pad', 0))
    return out


def body_ed(s):
    return u8(s['creator']) + u8(s['r1']) + u16(s['r2']) + s['data']


def sec_body(sec):
    k = sec['k']
    if k == 'SRC':
        return body_src(sec)
    if k == 'EH':
        return body_eh(sec)
    if k == 'MT':
        return body_mt(sec)
    if k == 'LP':
        return body_lp(sec)
    if k == 'ED':
        return body_ed(sec)
    if k in ('UD', 'RAW'):
        return sec['data']
    raise ValueError('unknown section kind %r' % (k,))


def enc_section(sec):
    body = sec_body(sec)
    return sec_header(sec_id(sec), HDR + len(body), sec['ver'], sec['sub'], sec['comp']) + body


def enc_ph(ph, nsections):
    count = ph.get('count')
    if count is None:
        count = nsections
    body = (ph['create'] + ph['commit'] + u8(ph['creator']) + u8(ph['r0']) + u8(ph['r1'])
            + u8(count) + u32(ph['obmc']) + ph['cver'] + u32(ph['plid']) + u32(ph['eid']))
    return sec_header('PH', HDR + len(body), ph['ver'], ph['sub'], ph['comp']) + body


def enc_uh(uh):
    body = (u8(uh['subsys']) + u8(uh['scope']) + u8(uh['sev']) + u8(uh['etype']) + u32(uh['r4'])
            + u8(uh['domain']) + u8(uh['vector']) + u16(uh['flags']) + u32(uh['states']))
    return sec_header('UH', HDR + len(body), uh['ver'], uh['sub'], uh['comp']) + body


def encode_parts(pel):
    """list of (label, bytes) - PH, UH, then each optional section."""
    secs = pel['secs']
    parts = [('PH', enc_ph(pel['ph'], 2 + len(secs))), ('UH', enc_uh(pel['uh']))]
    for s in secs:
        parts.append((s['k'], enc_section(s)))
    return parts


def encode(pel):
    return b''.join(b for _, b in encode_parts(pel))


def offsets(pel):
    """byte offset at which each section starts, plus the total length."""
    out = []
    pos = 0
    for _, b in encode_parts(pel):
        out.append(pos)
        pos += len(b)
    out.append(pos)
    return out


# ---------------------------------------------------------------------------
# defaults used by hand-made cases and as a base for strategies
# ---------------------------------------------------------------------------

def bcd(n, digits):
    s = ('%0' + str(digits) + 'd') % n
    return bytes.fromhex(s)


def timestamp(year=2024, month=3, day=8, hour=18, minute=40, sec=27, hund=0):
    return bcd(year, 4) + bcd(month, 2) + bcd(day, 2) + bcd(hour, 2) + bcd(minute, 2) \
        + bcd(sec, 2) + bcd(hund, 2)


def default_ph(**kw):
    ph = {'ver': 1, 'sub': 0, 'comp': 0x2000, 'create': timestamp(),
          'commit': timestamp(sec=28), 'creator': ord('O'), 'r0': 0, 'r1': 0,
          'obmc': 0x1234, 'cver': bytes(8), 'plid': 0x50000001, 'eid': 0x50000001,
          'count': None}
    ph.update(kw)
    return ph


def default_uh(**kw):
    uh = {'ver': 1, 'sub': 0, 'comp': 0x2000, 'subsys': 0x8D, 'scope': 3, 'sev': 0x40,
          'etype': 0, 'r4': 0, 'domain': 0, 'vector': 0, 'flags': 0xA800, 'states': 0}
    uh.update(kw)
    return uh


def minimal_pel(secs=(), ph=None, uh=None):
    return {'ph': ph or default_ph(), 'uh': uh or default_uh(), 'secs': list(secs)}


def pad_text(text, width, fill=b'\x00'):
    if isinstance(text, str):
        text = text.encode('ascii')
    return text + fill * (width - len(text))


def default_src(**kw):
    s = {'k': 'SRC', 'id': 'PS', 'ver': 1, 'sub': 1, 'comp': 0x2000, 'sver': 2, 'flags': 0,
         'r1': 0, 'wc': 9, 'r2': 0, 'words': [0x55, 0, 0, 0, 0, 0, 0, 0],
         'ascii': pad_text('BD8D1234', 32, b' '), 'callouts': None}
    s.update(kw)
    return s
