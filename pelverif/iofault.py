"""I/O event recorder and fault injector installed in a forked CLI child (C12).

Wraps builtins.open for write modes, sys.stdout, os.remove / os.unlink.  Every
event is appended at once to a log fd (so it survives a crash).  The k-th
*faultable* event (open-for-write, write, writelines, flush, close on an
output file; write / flush on stdout) can be made to fail with an OSError or
to crash the process (os._exit) before the operation is carried out.

File proxies buffer written text themselves and only hand it to the real file
on a successful flush / close, so a failing close or a crash really loses the
buffered data - as it does with a real full disk.
"""
import builtins
import errno
import io
import json
import os
import sys

ERRNOS = {'ENOSPC': errno.ENOSPC, 'EIO': errno.EIO, 'EPIPE': errno.EPIPE, 'EFBIG': errno.EFBIG}


class Injector:
    def __init__(self, log_fd, fault_index=None, action=None):
        self.log_fd = log_fd
        self.fault_index = fault_index
        self.action = action
        self.n = 0              # faultable events seen

    def log(self, *event):
        os.write(self.log_fd, (json.dumps(list(event)) + '\n').encode())

    def event(self, op, target, extra=None):
        """a faultable event is about to happen"""
        idx = self.n
        self.n += 1
        if self.fault_index is not None and idx == self.fault_index:
            self.log(op, target, extra, 'FAULT:' + self.action)
            if self.action == 'crash':
                os._exit(137)
            e = ERRNOS[self.action]
            raise OSError(e, os.strerror(e), target)
        self.log(op, target, extra, 'ok')


class FileProxy:
    def __init__(self, inj, real, path):
        self._inj = inj
        self._real = real
        self._path = path
        self._buf = []
        self.closed = False

    def write(self, s):
        self._inj.event('write', self._path, len(s))
        self._buf.append(s)
        return len(s)

    def writelines(self, lines):
        lines = list(lines)
        self._inj.event('writelines', self._path, sum(len(x) for x in lines))
        self._buf.extend(lines)

    def _drain(self):
        data, self._buf = self._buf, []
        for s in data:
            self._real.write(s)
        self._real.flush()

    def flush(self):
        self._inj.event('flush', self._path)
        self._drain()

    def close(self):
        if self.closed:
            return
        self.closed = True
        try:
            self._inj.event('close', self._path)
        except OSError:
            self._buf = []          # buffered data is lost
            try:
                self._real.close()
            except Exception:
                pass
            raise
        self._drain()
        self._real.close()

    def __enter__(self):
        return self

    def __exit__(self, *a):
        self.close()
        return False

    def __getattr__(self, name):
        return getattr(self._real, name)


class StdoutProxy:
    def __init__(self, inj, real):
        self._inj = inj
        self._real = real
        self._buf = []

    def write(self, s):
        self._inj.event('stdout-write', '<stdout>', len(s))
        self._buf.append(s)
        return len(s)

    def flush(self):
        self._inj.event('stdout-flush', '<stdout>')
        data, self._buf = self._buf, []
        for s in data:
            self._real.write(s)
        self._real.flush()

    def __getattr__(self, name):
        return getattr(self._real, name)


def install(log_fd, fault_index=None, action=None):
    inj = Injector(log_fd, fault_index, action)
    real_open = builtins.open

    def open_(file, mode='r', *a, **kw):
        writing = any(c in mode for c in 'wax+')
        if not writing or not isinstance(file, (str, bytes, os.PathLike)):
            return real_open(file, mode, *a, **kw)
        path = os.fspath(file)
        if isinstance(path, bytes):
            path = path.decode('utf-8', 'replace')
        inj.event('open', path, mode)
        real = real_open(file, mode, *a, **kw)
        if 'b' in mode:
            return real
        return FileProxy(inj, real, path)

    builtins.open = open_
    io.open = open_
    sys.stdout = StdoutProxy(inj, sys.stdout)

    real_remove, real_unlink = os.remove, os.unlink

    def remove(path, *a, **kw):
        inj.log('remove', os.fspath(path), None, 'call')
        return real_remove(path, *a, **kw)

    def unlink(path, *a, **kw):
        inj.log('remove', os.fspath(path), None, 'call')
        return real_unlink(path, *a, **kw)

    os.remove = remove
    os.unlink = unlink
    return inj


def read_log(path):
    out = []
    with open(path) as f:
        for line in f:
            line = line.strip()
            if line:
                out.append(json.loads(line))
    return out
