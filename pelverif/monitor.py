"""Harness-side monitors installed on the repo's DataStream class.

read monitor: if get_mem / inc_index is called with index + n > size (or
              n < 0 moving the cursor backwards) and *returns normally*, a read
              past the end of the input was accepted.  Independent of whether
              the repo's check is an assert or a raise.
call counter: number of DataStream calls, for the "terminates promptly"
              bound.
"""
import signal

from .core import Violation


class Hang(Exception):
    pass


class ReadMonitor:
    def __init__(self, datastream_module):
        self.cls = datastream_module.DataStream
        self.past_end = []      # (method, index, n, size)
        self.calls = 0
        self.limit = None
        self._orig = {}

    def install(self):
        mon = self
        cls = self.cls
        for name in ('get_mem', 'inc_index'):
            orig = getattr(cls, name)
            self._orig[name] = orig

            def wrapper(stream, num_bytes, _orig=orig, _name=name):
                mon.calls += 1
                if mon.limit is not None and mon.calls > mon.limit:
                    raise Hang('more than %d DataStream calls' % mon.limit)
                idx, size = stream.index, stream.size
                r = _orig(stream, num_bytes)
                # the call returned normally
                try:
                    n = int(num_bytes)
                except Exception:
                    n = 0
                if idx + n > size or n < 0:
                    mon.past_end.append((_name, idx, n, size))
                return r
            setattr(cls, name, wrapper)
        return self

    def remove(self):
        for name, orig in self._orig.items():
            setattr(self.cls, name, orig)
        self._orig = {}

    def reset(self, limit=None):
        self.past_end = []
        self.calls = 0
        self.limit = limit


class Watchdog:
    """coarse wall-clock guard: a case that has not finished after `seconds`
    (normal cases take milliseconds) is reported as a hang"""

    def __init__(self, seconds=20):
        self.seconds = seconds
        self.old = None

    def __enter__(self):
        def on_alarm(signum, frame):
            raise Hang('no result after %d s' % self.seconds)
        try:
            self.old = signal.signal(signal.SIGALRM, on_alarm)
            signal.alarm(self.seconds)
        except ValueError:      # not in the main thread
            self.old = None
        return self

    def __exit__(self, *a):
        try:
            signal.alarm(0)
            if self.old is not None:
                signal.signal(signal.SIGALRM, self.old)
        except ValueError:
            pass
        return False
