"""Core of the harness: violations, facets, sharded Hypothesis runs, evidence,
replays, known findings, exit protocol.

No `assert` statements are used anywhere in the harness.
"""
import collections
import hashlib
import json
import multiprocessing
import os
import signal
import sys
import time
import traceback

from . import repoenv

VERIF_DIR = repoenv.VERIF_DIR

EXIT_OK, EXIT_VIOLATION, EXIT_HARNESS = 0, 1, 2


class Violation(Exception):
    """The property was observed to be false for a concrete case."""

    def __init__(self, oracle, message, sig=None):
        super().__init__('%s: %s' % (oracle, message))
        self.oracle = oracle
        self.message = message
        # signature: stable identification of *what* failed (used for
        # bucketing and for matching entries of KNOWN_FINDINGS.json)
        self.sig = sig or oracle


class HarnessError(Exception):
    """Something is wrong with the harness or its environment (exit 2)."""


# ---------------------------------------------------------------------------
# JSON-able cases
# ---------------------------------------------------------------------------

def to_jsonable(x):
    if isinstance(x, (bytes, bytearray, memoryview)):
        return {'$b': bytes(x).hex()}
    if isinstance(x, dict):
        return {str(k): to_jsonable(v) for k, v in x.items()}
    if isinstance(x, (list, tuple)):
        return [to_jsonable(v) for v in x]
    if isinstance(x, (set, frozenset)):
        return sorted(to_jsonable(v) for v in x)
    if isinstance(x, float) or x is None or isinstance(x, (bool, int, str)):
        return x
    raise HarnessError('case is not JSON-able: %r' % (type(x),))


def from_jsonable(x):
    if isinstance(x, dict):
        if set(x.keys()) == {'$b'}:
            return bytes.fromhex(x['$b'])
        return {k: from_jsonable(v) for k, v in x.items()}
    if isinstance(x, list):
        return [from_jsonable(v) for v in x]
    return x


def canonical(case):
    return json.dumps(to_jsonable(case), sort_keys=True, separators=(',', ':'))


def digest(case):
    return hashlib.sha1(canonical(case).encode()).hexdigest()[:16]


def derive_seed(base, *parts):
    h = hashlib.sha256(('%d|' % base + '|'.join(str(p) for p in parts)).encode())
    return int.from_bytes(h.digest()[:8], 'big')


def truncate_sample(x, limit=1600):
    """Shorten long hex strings in a sample so evidence stays readable."""
    if isinstance(x, dict):
        if set(x.keys()) == {'$b'} and len(x['$b']) > limit:
            return {'$b': x['$b'][:limit] + '...', 'len': len(x['$b']) // 2}
        return {k: truncate_sample(v, limit) for k, v in x.items()}
    if isinstance(x, list):
        if len(x) > 64:
            return [truncate_sample(v, limit) for v in x[:64]] + ['... %d more' % (len(x) - 64)]
        return [truncate_sample(v, limit) for v in x]
    if isinstance(x, str) and len(x) > limit:
        return x[:limit] + '...(%d chars)' % len(x)
    return x


# ---------------------------------------------------------------------------
# Notes taken by a check about one case
# ---------------------------------------------------------------------------

class Note:
    __slots__ = ('nontrivial', 'labels', 'extra_eval', 'sample', 'points', 'nontrivial_points')

    def __init__(self):
        self.points = 1             # how many points of the input space this case covers
        self.nontrivial_points = 0  # distinct non-trivial points inside an aggregated case
        self.nontrivial = False
        self.labels = []
        self.extra_eval = 0     # extra executions of code under test
        self.sample = None      # optional replacement for the case in samples

    def label(self, *names):
        self.labels.extend(names)


class FacetResult:
    def __init__(self, name):
        self.name = name
        self.evaluations = 0
        self.executions = 0
        self.nontrivial = set()
        self.nontrivial_extra = 0
        self.labels = collections.Counter()
        self.samples = []
        self.violations = []    # dicts: sig, oracle, message, case(jsonable), seed
        self.errors = []
        self.known_hits = collections.Counter()
        self.exhaustive = None
        self.notes = []

    def merge(self, other):
        self.evaluations += other.evaluations
        self.executions += other.executions
        self.nontrivial |= other.nontrivial
        self.nontrivial_extra += other.nontrivial_extra
        self.labels.update(other.labels)
        for s in other.samples:
            if len(self.samples) < 6:
                self.samples.append(s)
        self.violations.extend(other.violations)
        self.errors.extend(other.errors)
        self.known_hits.update(other.known_hits)
        self.notes.extend(other.notes)


# ---------------------------------------------------------------------------
# Known findings
# ---------------------------------------------------------------------------

def load_known_findings():
    path = os.path.join(VERIF_DIR, 'KNOWN_FINDINGS.json')
    if not os.path.exists(path):
        return []
    with open(path) as f:
        return json.load(f).get('findings', [])


def known_signatures(prop_id):
    """signature -> description, for entries with status 'known' only.
    'fixed' entries suppress nothing."""
    out = {}
    for f in load_known_findings():
        if f.get('property') == prop_id and f.get('status') == 'known':
            out[f['signature']] = f.get('what', '')
    return out


# ---------------------------------------------------------------------------
# Property / facet registry
# ---------------------------------------------------------------------------

class Facet:
    def __init__(self, prop, name, kind, fn, **kw):
        self.prop = prop
        self.name = name
        self.kind = kind            # 'given' | 'enum' | 'custom'
        self.fn = fn
        self.kw = kw


class Property:
    def __init__(self, pid, level, rule, assumptions=(), design_ref=''):
        self.id = pid
        self.level = level
        self.rule = rule
        self.assumptions = list(assumptions)
        self.design_ref = design_ref
        self.facets = collections.OrderedDict()
        self.setup_fn = None

    # --- registration -----------------------------------------------------
    def given(self, name, strategy, quick, thorough, shards_quick=4,
              shards_thorough=16, max_shrink_s=(45, 200)):
        """check(case, note) run on cases drawn by Hypothesis from
        strategy(tier) ."""
        def deco(fn):
            self.facets[name] = Facet(self, name, 'given', fn, strategy=strategy,
                                      n={'quick': quick, 'thorough': thorough},
                                      shards={'quick': shards_quick,
                                              'thorough': shards_thorough},
                                      max_shrink_s=max_shrink_s)
            return fn
        return deco

    def enum(self, name, cases, chunk=256, exhaustive=None):
        """check(case, note) run on every case of a finite list produced by
        cases(tier, seed)."""
        def deco(fn):
            self.facets[name] = Facet(self, name, 'enum', fn, cases=cases,
                                      chunk=chunk, exhaustive=exhaustive)
            return fn
        return deco

    def custom(self, name):
        """fn(ctx) -> FacetResult; for state machines and special drivers."""
        def deco(fn):
            self.facets[name] = Facet(self, name, 'custom', fn)
            return fn
        return deco

    def setup(self, fn):
        self.setup_fn = fn
        return fn


class Ctx:
    def __init__(self, prop, tier, seed):
        self.prop = prop
        self.tier = tier
        self.seed = seed
        self.known = known_signatures(prop.id)


# ---------------------------------------------------------------------------
# running one case
# ---------------------------------------------------------------------------

def _run_case(facet, case, res, known, collect_sample=True):
    """Runs check on one case; returns a Violation or None.  Non-Violation
    exceptions propagate (harness error)."""
    note = Note()
    try:
        facet.fn(case, note)
    except Violation as v:
        res.evaluations += note.points
        res.executions += 1 + note.extra_eval
        if v.sig in known:
            res.known_hits[v.sig] += 1
            return None
        return v
    res.evaluations += note.points
    res.executions += 1 + note.extra_eval
    res.nontrivial_extra += note.nontrivial_points
    for l in note.labels:
        res.labels[l] += 1
    if note.nontrivial:
        d = digest(case)
        if d not in res.nontrivial:
            res.nontrivial.add(d)
            if collect_sample and len(res.samples) < 3:
                s = note.sample if note.sample is not None else case
                res.samples.append(truncate_sample(to_jsonable(s)))
    return None


def _violation_record(v, case, seed):
    return {'sig': v.sig, 'oracle': v.oracle, 'message': v.message,
            'case': to_jsonable(case), 'seed': seed}


# ---------------------------------------------------------------------------
# Hypothesis-driven shard
# ---------------------------------------------------------------------------

def _given_shard(args):
    pid, fname, tier, base_seed, shard, n = args
    from .props import load_property
    prop = load_property(pid)
    facet = prop.facets[fname]
    res = FacetResult(fname)
    known = known_signatures(pid)
    try:
        import hypothesis
        from hypothesis import given, settings, HealthCheck, Phase
        sd = derive_seed(base_seed, pid, fname, shard)
        best = {}           # sig -> (size, record)
        state = {'first_fail': None, 'best_digest': None}
        budget = facet.kw['max_shrink_s'][0 if tier == 'quick' else 1]
        strat = facet.kw['strategy'](tier)

        def test(case):
            if state['first_fail'] is not None and \
                    time.monotonic() - state['first_fail'] > budget:
                # shrink budget used up: only the best case so far still
                # fails, so Hypothesis finishes at once
                if digest(case) != state['best_digest']:
                    return
            v = _run_case(facet, case, res, known)
            if v is not None:
                if state['first_fail'] is None:
                    state['first_fail'] = time.monotonic()
                size = len(canonical(case))
                cur = best.get(v.sig)
                if cur is None or size <= cur[0]:
                    best[v.sig] = (size, _violation_record(v, case, sd))
                # the overall smallest failing case is what Hypothesis will
                # replay at the end
                if state['best_digest'] is None or size <= state.get('best_size', 1 << 62):
                    state['best_digest'] = digest(case)
                    state['best_size'] = size
                raise v

        test = given(strat)(test)
        test = hypothesis.seed(sd)(test)
        test = settings(max_examples=n, database=None, deadline=None,
                        derandomize=False, report_multiple_bugs=False,
                        print_blob=False,
                        phases=[Phase.generate, Phase.shrink],
                        suppress_health_check=list(HealthCheck))(test)
        try:
            test()
        except Violation:
            pass
        except hypothesis.errors.Flaky:
            # can only come from the shrink budget trick; the recorded best
            # case is still a genuine failing case
            if not best:
                raise
        for _, rec in best.values():
            res.violations.append(rec)
    except BaseException as e:     # harness error inside the shard
        if isinstance(e, (KeyboardInterrupt, SystemExit)):
            raise
        res.errors.append('shard %d of %s/%s: %s' % (
            shard, pid, fname, ''.join(traceback.format_exception(type(e), e, e.__traceback__))))
    return res


def _enum_chunk(args):
    pid, fname, tier, base_seed, cases = args
    from .props import load_property
    prop = load_property(pid)
    facet = prop.facets[fname]
    res = FacetResult(fname)
    known = known_signatures(pid)
    best = {}
    try:
        for case in cases:
            v = _run_case(facet, case, res, known)
            if v is not None:
                size = len(canonical(case))
                cur = best.get(v.sig)
                if cur is None or size < cur[0]:
                    best[v.sig] = (size, _violation_record(v, case, base_seed))
        for _, rec in best.values():
            res.violations.append(rec)
    except BaseException as e:
        if isinstance(e, (KeyboardInterrupt, SystemExit)):
            raise
        res.errors.append('enum chunk of %s/%s: %s' % (
            pid, fname, ''.join(traceback.format_exception(type(e), e, e.__traceback__))))
    return res


def ncores():
    try:
        return max(1, min(16, len(os.sched_getaffinity(0))))
    except Exception:
        return max(1, min(16, os.cpu_count() or 1))


def _pool():
    return multiprocessing.get_context('fork').Pool(ncores())


def run_facet(facet, ctx):
    prop = facet.prop
    total = FacetResult(facet.name)
    if facet.kind == 'given':
        n = facet.kw['n'][ctx.tier]
        shards = max(1, min(facet.kw['shards'][ctx.tier], n))
        if n >= ncores() * 10:
            shards = max(shards, ncores())      # use every core when there is enough work per shard
        per = [n // shards + (1 if i < n % shards else 0) for i in range(shards)]
        jobs = [(prop.id, facet.name, ctx.tier, ctx.seed, i, per[i])
                for i in range(shards) if per[i] > 0]
        if len(jobs) == 1 and os.environ.get('VERIF_INPROC'):
            results = [_given_shard(jobs[0])]
        else:
            with _pool() as pool:
                results = pool.map(_given_shard, jobs, chunksize=1)
        for r in results:
            total.merge(r)
    elif facet.kind == 'enum':
        cases = facet.kw['cases'](ctx.tier, ctx.seed)
        if not isinstance(cases, list):
            cases = list(cases)
        chunk = facet.kw['chunk']
        jobs = [(prop.id, facet.name, ctx.tier, ctx.seed, cases[i:i + chunk])
                for i in range(0, len(cases), chunk)]
        with _pool() as pool:
            results = pool.map(_enum_chunk, jobs, chunksize=1)
        for r in results:
            total.merge(r)
        ex = facet.kw['exhaustive']
        if ex is not None:
            total.exhaustive = ex(ctx.tier) if callable(ex) else bool(ex)
    elif facet.kind == 'custom':
        try:
            r = facet.fn(ctx)
            total.merge(r)
            total.exhaustive = r.exhaustive
        except BaseException as e:
            if isinstance(e, (KeyboardInterrupt, SystemExit)):
                raise
            total.errors.append('custom facet %s/%s: %s' % (
                prop.id, facet.name,
                ''.join(traceback.format_exception(type(e), e, e.__traceback__))))
    # keep the smallest violation per signature
    bysig = {}
    for rec in total.violations:
        size = len(json.dumps(rec['case']))
        if rec['sig'] not in bysig or size < bysig[rec['sig']][0]:
            bysig[rec['sig']] = (size, rec)
    total.violations = [r for _, r in bysig.values()]
    return total


# ---------------------------------------------------------------------------
# replay
# ---------------------------------------------------------------------------

def write_replay(prop, facet_name, rec):
    d = os.path.join(os.environ.get('VERIF_REPLAY_DIR') or os.path.join(VERIF_DIR, 'replays'), prop.id)
    os.makedirs(d, exist_ok=True)
    body = {'property': prop.id, 'facet': facet_name, 'signature': rec['sig'],
            'oracle': rec['oracle'], 'message': rec['message'],
            'seed': rec.get('seed'), 'case': rec['case']}
    name = hashlib.sha1(json.dumps(body['case'], sort_keys=True).encode()
                        + facet_name.encode()).hexdigest()[:16] + '.json'
    path = os.path.join(d, name)
    with open(path, 'w') as f:
        json.dump(body, f, indent=1, sort_keys=True)
    return os.path.relpath(path, VERIF_DIR) if not os.environ.get('VERIF_REPLAY_DIR') else path


def replay_file(prop, path):
    """Re-executes one saved case without Hypothesis. Returns a Violation or
    None."""
    with open(path) as f:
        body = json.load(f)
    if body.get('property') != prop.id:
        raise HarnessError('replay file %s is for property %s' % (path, body.get('property')))
    facet = prop.facets.get(body['facet'])
    if facet is None:
        raise HarnessError('replay file %s names unknown facet %s' % (path, body['facet']))
    replay_fn = facet.kw.get('replay') if facet.kind == 'custom' else None
    case = from_jsonable(body['case'])
    note = Note()
    try:
        if facet.kind == 'custom':
            from .props import custom_replay
            custom_replay(prop, facet, case)
        else:
            facet.fn(case, note)
    except Violation as v:
        return v
    return None


# ---------------------------------------------------------------------------
# main driver
# ---------------------------------------------------------------------------

def run_property(prop, tier, seed, only_facets=None):
    t0 = time.time()
    ctx = Ctx(prop, tier, seed)
    exit_code = EXIT_OK
    lines = []
    nviol = 0
    if prop.setup_fn:
        prop.setup_fn(ctx)

    # 1. seconds-long replay tier: committed regression cases
    regress_dir = os.path.join(VERIF_DIR, 'regress', prop.id)
    regress_run = 0
    regress_results = []
    if os.path.isdir(regress_dir) and not only_facets:
        for fn in sorted(os.listdir(regress_dir)):
            if not fn.endswith('.json'):
                continue
            p = os.path.join(regress_dir, fn)
            regress_run += 1
            v = replay_file(prop, p)
            if v is not None:
                if v.sig in ctx.known:
                    regress_results.append((fn, 'known'))
                    continue
                nviol += 1
                exit_code = EXIT_VIOLATION
                print('VIOLATION property=%s replay=%s' % (prop.id, os.path.relpath(p, VERIF_DIR)))
                print('  regression case fails: %s' % v)
                regress_results.append((fn, 'FAIL'))
            else:
                regress_results.append((fn, 'pass'))

    # 2. generated search, facet by facet
    results = collections.OrderedDict()
    for name, facet in prop.facets.items():
        if only_facets and name not in only_facets:
            continue
        ft0 = time.time()
        r = run_facet(facet, ctx)
        r.wall = time.time() - ft0
        results[name] = r
        for rec in r.violations:
            path = write_replay(prop, name, rec)
            nviol += 1
            exit_code = EXIT_VIOLATION
            print('VIOLATION property=%s replay=%s' % (prop.id, path))
            print('  facet=%s signature=%s' % (name, rec['sig']))
            print('  %s' % rec['message'][:2000])
        for e in r.errors:
            print('HARNESS-ERROR %s' % e, file=sys.stderr)
            if exit_code == EXIT_OK:
                exit_code = EXIT_HARNESS
        sys.stdout.flush()

    # 3. known findings still present
    known_seen = collections.Counter()
    for r in results.values():
        known_seen.update(r.known_hits)
    for fn, st in regress_results:
        if st == 'known':
            known_seen['(regress) ' + fn] += 1
    for sig, what in ctx.known.items():
        if known_seen.get(sig):
            print('KNOWN-FINDING: property=%s %s [%s; %d generated cases hit it and were excluded]'
                  % (prop.id, what, sig, known_seen[sig]))

    wall = time.time() - t0
    write_evidence(prop, tier, seed, results, wall, nviol, regress_run, known_seen,
                   partial=bool(only_facets))
    for name, r in results.items():
        print('%s/%s: %d cases, %d distinct non-trivial, %.1fs%s' % (
            prop.id, name, r.evaluations, len(r.nontrivial) + r.nontrivial_extra, r.wall,
            ' (exhaustive)' if r.exhaustive else ''))
    print('%s %s seed=%d: %s in %.1fs' % (
        prop.id, tier, seed,
        {0: 'held on everything explored', 1: 'VIOLATED', 2: 'HARNESS ERROR'}[exit_code], wall))
    return exit_code


def write_evidence(prop, tier, seed, results, wall, nviol, regress_run, known_seen, partial=False):
    facets = collections.OrderedDict()
    samples = []
    evaluations = 0
    executions = 0
    distinct = 0
    exhaustive_all = bool(results)
    for name, r in results.items():
        evaluations += r.evaluations
        executions += r.executions
        distinct += len(r.nontrivial) + r.nontrivial_extra
        if not r.exhaustive:
            exhaustive_all = False
        facets[name] = {
            'evaluations': r.evaluations,
            'executions_of_code_under_test': r.executions,
            'distinct_nontrivial': len(r.nontrivial) + r.nontrivial_extra,
            'class_histogram': dict(sorted(r.labels.items())),
            'exhaustive': bool(r.exhaustive),
            'wall_s': round(getattr(r, 'wall', 0.0), 2),
            'excluded_known': dict(r.known_hits),
            'notes': r.notes[:10],
        }
        for s in r.samples[:3]:
            samples.append({'facet': name, 'case': s})
    ev = {
        'property_id': prop.id,
        'tier': tier,
        'seed': int(seed),
        'level': prop.level,
        'coverage': {
            'evaluations': evaluations,
            'distinct_nontrivial': distinct,
            'rule': prop.rule,
            'samples': samples,
            'exhaustive': exhaustive_all,
            'executions_of_code_under_test': executions,
            'facets': facets,
            'regression_replays_run': regress_run,
            'known_findings_excluded': dict(known_seen),
        },
        'assumptions': prop.assumptions,
        'wall_s': round(wall, 2),
        'violations': nviol,
    }
    if partial:
        ev['coverage']['partial_run'] = True
    d = os.environ.get('VERIF_EVIDENCE_DIR') or os.path.join(VERIF_DIR, 'evidence')
    os.makedirs(d, exist_ok=True)
    tmp = os.path.join(d, '.%s.json.tmp' % prop.id)
    with open(tmp, 'w') as f:
        json.dump(ev, f, indent=1)
        f.write('\n')
    os.replace(tmp, os.path.join(d, '%s.json' % prop.id))
    if tier == 'thorough' and not partial:
        # keep the last thorough evidence next to the file the quick tier rewrites
        td = os.path.join(d, 'thorough')
        os.makedirs(td, exist_ok=True)
        with open(os.path.join(td, '%s.json' % prop.id), 'w') as f:
            json.dump(ev, f, indent=1)
            f.write('\n')


def main(argv=None):
    argv = list(sys.argv[1:] if argv is None else argv)
    if not argv:
        print('usage: check <ID> quick|thorough [facet ...] | check <ID> --replay <path>',
              file=sys.stderr)
        return EXIT_HARNESS
    pid = argv[0].upper()
    # scratch directories of worker processes carry this tag: workers of a fork pool end without running exit
    # handlers, so the main process sweeps what they leave behind
    tag = os.environ.setdefault('PELVERIF_RUN_TAG', str(os.getpid()))
    try:
        return _main(argv, pid)
    finally:
        if tag == str(os.getpid()):
            _sweep_scratch(tag)


def _sweep_scratch(tag):
    import glob
    import shutil
    import tempfile
    for base in {'/dev/shm', tempfile.gettempdir()}:
        for d in glob.glob(os.path.join(base, 'pelverif_%s_*' % tag)):
            shutil.rmtree(d, ignore_errors=True)


def _main(argv, pid):
    try:
        repoenv.activate()
        from .props import load_property
        prop = load_property(pid)
        if len(argv) >= 3 and argv[1] == '--replay':
            path = argv[2]
            if not os.path.isabs(path):
                path = os.path.join(VERIF_DIR, path)
            if prop.setup_fn:
                prop.setup_fn(Ctx(prop, 'quick', 0))
            v = replay_file(prop, path)
            if v is not None:
                print('VIOLATION property=%s replay=%s' % (pid, os.path.relpath(path, VERIF_DIR)))
                print('  %s' % v)
                return EXIT_VIOLATION
            print('%s replay %s: passed' % (pid, os.path.relpath(path, VERIF_DIR)))
            return EXIT_OK
        tier = argv[1] if len(argv) > 1 else os.environ.get('VERIF_TIER', 'quick')
        if tier not in ('quick', 'thorough'):
            raise HarnessError('tier must be quick or thorough, not %r' % tier)
        seed = int(os.environ.get('VERIF_SEED', '1') or '1')
        only = argv[2:] or None
        return run_property(prop, tier, seed, only)
    except HarnessError as e:
        print('HARNESS-ERROR %s' % e, file=sys.stderr)
        return EXIT_HARNESS
    except Exception:
        traceback.print_exc()
        print('HARNESS-ERROR unexpected exception in the harness', file=sys.stderr)
        return EXIT_HARNESS
