"""Directories of PEL files for the command-line properties (C08-C12)."""
import hashlib
import json
import os
import shutil
import tempfile

from hypothesis import strategies as st

from . import model as M
from . import strategies as S
from .core import Violation
from .props.c07 import ref_selected, SWITCHES

HEX = '0123456789ABCDEF'


@st.composite
def dir_pel(draw, eid, selectable=None, plid=None, refcodes=None):
    """a small well-formed PEL with the given entry id"""
    sev = draw(st.one_of(st.sampled_from([0x00, 0x10, 0x20, 0x40, 0x51, 0x71, 0x05]), S.severity_byte))
    flags = draw(S.uint(16))
    if selectable is True:
        flags = (flags | (0x8000 if sev == 0 else 0x2000)) & ~0x4000
    secs = []
    if draw(st.integers(0, 5)) != 0:
        if refcodes:
            code = draw(st.sampled_from(refcodes))
        else:
            code = draw(st.sampled_from(['BD', '11', 'BC', 'B7'])) + ''.join(
                draw(st.lists(st.sampled_from(HEX), min_size=6, max_size=6)))
        secs.append(M.default_src(ascii=M.pad_text(code, 32, b' '),
                                  words=[draw(S.uint(32)) for _ in range(8)]))
    for _ in range(draw(st.integers(0, 2))):
        secs.append(draw(st.one_of(S.ud_section(max_len=12), S.mt_section(), S.raw_section(max_len=12))))
    ph = M.default_ph(eid=eid, plid=plid if plid is not None else draw(S.uint(32)),
                      obmc=draw(st.one_of(S.uint(32), st.integers(0, 50))),
                      creator=draw(st.sampled_from([ord('O'), ord('O'), ord('B'), ord('H'), ord('x')])),
                      comp=draw(S.comp_id), commit=draw(S.bcd_timestamp()), create=draw(S.bcd_timestamp()))
    uh = M.default_uh(sev=sev, flags=flags, subsys=draw(S.byte))
    return {'ph': ph, 'uh': uh, 'secs': secs}


def distinct_eids(draw, n):
    pool = draw(st.lists(st.one_of(S.uint(32), st.integers(0x50000000, 0x500000FF), st.integers(0, 0x20)),
                         min_size=n, max_size=n, unique=True))
    return pool


NAME_CH = 'ABCDEFGHIJKLMNOPQRSTUVWXYZabcdefghijklmnopqrstuvwxyz0123456789_'
EXTS = ['.pel', '.txt', '.bin', '.PEL']


@st.composite
def file_name(draw):
    base = draw(st.text(st.sampled_from(NAME_CH), min_size=1, max_size=12))
    exts = draw(st.lists(st.sampled_from(EXTS), max_size=2))
    return base + ''.join(exts)


def ref_ext(name):
    """extension as the tool defines it: from the last dot (not a leading one)"""
    i = name.rfind('.')
    if i <= 0 or name[:i].strip('.') == '':
        return ''
    return name[i:]


@st.composite
def selection(draw, allow_only=True):
    on = [draw(st.booleans()) and draw(st.booleans()) for _ in SWITCHES]
    if not allow_only:
        on[5] = False
    groups = draw(st.lists(st.sampled_from(['Informational', 'Recovered', 'Predictive', 'Unrecoverable', 'Critical',
                                            'Diagnostic', 'Symptom']), max_size=2))
    return {'on': on, 'groups': groups}


def selection_argv(sel):
    argv = []
    letters = ''.join(SWITCHES[i][0] for i, v in enumerate(sel['on']) if v)
    if letters:
        argv.append('-' + letters)
    if sel['groups']:
        argv += ['-S'] + list(sel['groups'])
    return argv


def selected(pel, sel, groups_table, lookup=False):
    gs = frozenset(groups_table[g] for g in sel['groups'])
    E, s, N, H, t, O = sel['on']
    return ref_selected(pel['uh']['sev'], pel['uh']['flags'], E, s, N, H, t, O, gs, lookup)


class TempDir:
    def __init__(self, prefix='peldir'):
        self.prefix = prefix
        self.path = None

    def __enter__(self):
        base = '/dev/shm' if os.path.isdir('/dev/shm') and os.access('/dev/shm', os.W_OK) else None
        self.path = tempfile.mkdtemp(prefix=self.prefix, dir=base)
        return self.path

    def __exit__(self, *a):
        shutil.rmtree(self.path, ignore_errors=True)


def write_files(d, files):
    """files: dict relative path -> bytes (directories are created)"""
    for rel, data in files.items():
        p = os.path.join(d, rel)
        os.makedirs(os.path.dirname(p), exist_ok=True)
        if data is None:
            os.makedirs(p, exist_ok=True)
        else:
            with open(p, 'wb') as f:
                f.write(data)


def snapshot(d):
    """recursive (path, type, size, sha256)"""
    out = {}
    for root, dirs, files in os.walk(d):
        for n in dirs:
            out[os.path.relpath(os.path.join(root, n), d)] = ('dir',)
        for n in files:
            p = os.path.join(root, n)
            with open(p, 'rb') as f:
                b = f.read()
            out[os.path.relpath(p, d)] = ('file', len(b), hashlib.sha256(b).hexdigest())
    return out


def parse_json_out(r, what, oracle):
    if r.status != 0:
        raise Violation(oracle + '.status', '%s exited with %r: %s' % (what, r.status, r.brief()),
                        sig=oracle + '.status')
    if 'Traceback (most recent call last)' in r.err:
        raise Violation(oracle + '.traceback', '%s printed a traceback: %s' % (what, r.err[-500:]),
                        sig=oracle + '.traceback')
    try:
        return json.loads(r.out)
    except ValueError as e:
        raise Violation(oracle + '.json', '%s: stdout is not one JSON document (%s): %r'
                        % (what, e, r.out[:300]), sig=oracle + '.json')
