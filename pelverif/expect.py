"""What the decoded document must show for a model (C02, C03, ...).

Name tables are imported from the repo at run time: the properties say "the
published name tables"; the oracle decides which byte goes through which
table with which fallback, not the table contents.
"""
import re

from .core import Violation
from .run import R, need


def bcd_time(b):
    h = b.hex()
    return '%s/%s/%s %s:%s:%s' % (h[4:6], h[6:8], h[0:4], h[8:10], h[10:12], h[12:14])


def text_of(field):
    """fixed-width text without its NUL padding"""
    return field.rstrip(b'\x00').decode('utf-8')


def as_int(shown, what, base=None):
    """numeric reading of a displayed id/count, tolerant of padding and 0x"""
    if isinstance(shown, bool):
        raise Violation('C02.type', '%s is shown as %r' % (what, shown))
    if isinstance(shown, int):
        return shown
    if not isinstance(shown, str):
        raise Violation('C02.type', '%s is shown as %r' % (what, shown))
    s = shown.strip()
    try:
        if s.lower().startswith('0x'):
            return int(s, 16)
        return int(s, base or 10)
    except ValueError:
        raise Violation('C02.type', '%s is shown as %r, not a number' % (what, shown))


def display_comp(comp, creator_chr, compnames):
    """the three display rules for a component id"""
    creators = R.pel_values.creatorIDs
    if creators.get(creator_chr) == 'PHYP':
        hi, lo = (comp >> 8) & 0xFF, comp & 0xFF
        if hi and lo:
            return chr(hi) + chr(lo)
        return '%04X' % comp
    key = '%04X' % comp
    names = (compnames or {}).get(creator_chr, {})
    if key in names:
        return names[key]
    return key


def base_name(section):
    return re.sub(r' \d+$', '', section)


def eq(prop, section, field, shown, want):
    if shown != want:
        raise Violation('%s.field' % prop, '%s / %s: shown %r, encoded %r' % (section, field, shown, want),
                        sig='%s.field:%s/%s' % (prop, base_name(section), field))


def eq_num(prop, section, field, shown, want, base=None):
    got = as_int(shown, '%s / %s' % (section, field), base)
    if got != want:
        raise Violation('%s.field' % prop, '%s / %s: shown %r (= %d), encoded %d (0x%X)'
                        % (section, field, shown, got, want, want),
                        sig='%s.field:%s/%s' % (prop, base_name(section), field))


def check_common(prop, name, entry, sec):
    eq(prop, name, 'Section Version', need(entry, 'Section Version', name), sec['ver'])
    eq(prop, name, 'Sub-section type', need(entry, 'Sub-section type', name), sec['sub'])


def check_ph(entry, ph, compnames, prop='C02'):
    n = 'Private Header'
    creator = chr(ph['creator'])
    check_common(prop, n, entry, ph)
    eq(prop, n, 'Created by', need(entry, 'Created by', n), display_comp(ph['comp'], creator, compnames))
    eq(prop, n, 'Created at', need(entry, 'Created at', n), bcd_time(ph['create']))
    eq(prop, n, 'Committed at', need(entry, 'Committed at', n), bcd_time(ph['commit']))
    eq(prop, n, 'Creator Subsystem', need(entry, 'Creator Subsystem', n),
       R.pel_values.creatorIDs.get(creator, 'Unknown'))
    eq_num(prop, n, 'CSSVER', need(entry, 'CSSVER', n), int.from_bytes(ph['cver'], 'big'), 16)
    eq_num(prop, n, 'Platform Log Id', need(entry, 'Platform Log Id', n), ph['plid'], 16)
    eq_num(prop, n, 'Entry Id', need(entry, 'Entry Id', n), ph['eid'], 16)
    eq_num(prop, n, 'BMC Event Log Id', need(entry, 'BMC Event Log Id', n), ph['obmc'], 10)


# the action-flag bits the PEL format defines (keys only - the texts are the
# repo's); a table that loses one of them can no longer display that flag
DEFINED_ACTION_FLAG_BITS = (0x8000, 0x4000, 0x2000, 0x1000, 0x0800, 0x0400, 0x0100, 0x0020)


def action_flag_names(flags):
    missing = [b for b in DEFINED_ACTION_FLAG_BITS if b not in R.pel_values.actionFlagsValues]
    if missing:
        raise Violation('C02.table', 'the action-flag table no longer defines bit(s) %s'
                        % ', '.join('0x%04X' % b for b in missing), sig='C02.table.action-flags')
    return [name for bit, name in R.pel_values.actionFlagsValues.items() if bit & flags]


def check_uh(entry, uh, creator_chr, compnames, prop='C02'):
    n = 'User Header'
    V = R.pel_values
    check_common(prop, n, entry, uh)
    eq(prop, n, 'Log Committed by', need(entry, 'Log Committed by', n),
       display_comp(uh['comp'], creator_chr, compnames))
    eq(prop, n, 'Subsystem', need(entry, 'Subsystem', n), V.subsystemValues.get(uh['subsys'], 'Invalid'))
    eq(prop, n, 'Event Scope', need(entry, 'Event Scope', n), V.eventScopeValues.get(uh['scope'], 'Invalid'))
    eq(prop, n, 'Event Severity', need(entry, 'Event Severity', n), V.severityValues.get(uh['sev'], 'Invalid'))
    eq(prop, n, 'Event Type', need(entry, 'Event Type', n), V.eventTypeValues.get(uh['etype'], 'Invalid'))
    shown = need(entry, 'Action Flags', n)
    if not isinstance(shown, list):
        raise Violation('%s.type' % prop, 'Action Flags shown as %r' % (shown,))
    if sorted(shown) != sorted(action_flag_names(uh['flags'])):
        raise Violation('%s.field' % prop, 'User Header / Action Flags: shown %r, flag word 0x%04X has %r'
                        % (shown, uh['flags'], action_flag_names(uh['flags'])),
                        sig='%s.field:User Header/Action Flags' % prop)
    eq(prop, n, 'Host Transmission', need(entry, 'Host Transmission', n),
       V.transmissionStates.get(uh['states'] & 0xFF, 'Unknown'))
    eq(prop, n, 'HMC Transmission', need(entry, 'HMC Transmission', n),
       V.transmissionStates.get((uh['states'] >> 8) & 0xFF, 'Unknown'))


def check_eh(name, entry, s, creator_chr, compnames, prop='C02'):
    check_common(prop, name, entry, s)
    eq(prop, name, 'Created by', need(entry, 'Created by', name), display_comp(s['comp'], creator_chr, compnames))
    eq(prop, name, 'Reporting Machine Type', need(entry, 'Reporting Machine Type', name), text_of(s['mtm']))
    eq(prop, name, 'Reporting Serial Number', need(entry, 'Reporting Serial Number', name), text_of(s['sn']))
    eq(prop, name, 'FW Released Ver', need(entry, 'FW Released Ver', name), text_of(s['fw']))
    eq(prop, name, 'FW SubSys Version', need(entry, 'FW SubSys Version', name), text_of(s['subfw']))
    eq(prop, name, 'Common Ref Time', need(entry, 'Common Ref Time', name), bcd_time(s['ref']))
    eq_num(prop, name, 'Symptom Id Len', need(entry, 'Symptom Id Len', name), len(s['symptom']), 10)
    eq(prop, name, 'Symptom Id', need(entry, 'Symptom Id', name), text_of(s['symptom']))


def check_mt(name, entry, s, creator_chr, compnames, prop='C02'):
    check_common(prop, name, entry, s)
    eq(prop, name, 'Created by', need(entry, 'Created by', name), display_comp(s['comp'], creator_chr, compnames))
    eq(prop, name, 'Machine Type Model', need(entry, 'Machine Type Model', name), text_of(s['mtm']))
    eq(prop, name, 'Serial Number', need(entry, 'Serial Number', name), text_of(s['sn']))


TARGET_RE = re.compile(r'0[xX]([0-9A-Fa-f]{1,8})')


def shown_targets(entry):
    """every target id displayed under keys beginning 'Target LP' other than
    the count - whatever the representation (string, list, numbered keys)"""
    out = []

    def walk(v):
        if isinstance(v, str):
            out.extend(int(m, 16) for m in TARGET_RE.findall(v))
        elif isinstance(v, int) and not isinstance(v, bool):
            out.append(v)
        elif isinstance(v, list):
            for x in v:
                walk(x)
        elif isinstance(v, dict):
            for x in v.values():
                walk(x)
    for k, v in entry.items():
        if k.startswith('Target LP') and 'Count' not in k:
            walk(v)
    return out


def check_lp(name, entry, s, creator_chr, compnames, prop='C02'):
    check_common(prop, name, entry, s)
    eq(prop, name, 'Created by', need(entry, 'Created by', name), display_comp(s['comp'], creator_chr, compnames))
    eq_num(prop, name, 'Primary Partition ID', need(entry, 'Primary Partition ID', name), s['pid'], 16)
    eq_num(prop, name, 'Length of LP Name', need(entry, 'Length of LP Name', name), len(s['name']), 16)
    eq_num(prop, name, 'Target LP Count', need(entry, 'Target LP Count', name), len(s['targets']), 16)
    eq_num(prop, name, 'Logical Partition Log ID', need(entry, 'Logical Partition Log ID', name), s['logid'], 16)
    eq(prop, name, 'Primary Partition Name', need(entry, 'Primary Partition Name', name), text_of(s['name']))
    got = shown_targets(entry)
    if got != list(s['targets']):
        raise Violation('%s.field' % prop, '%s / Target LP: shown %r, encoded %r'
                        % (name, ['0x%04X' % t for t in got], ['0x%04X' % t for t in s['targets']]),
                        sig='%s.field:Impacted Partition/Target LP' % prop)
