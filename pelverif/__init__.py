"""Property-based verification harness for openpower-pel-parsers.

The harness never uses `assert` (see DESIGN.md section 2); every oracle raises
an explicit Violation.
"""
