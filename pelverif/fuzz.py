"""Coverage-guided campaigns: launches tools/fuzz_atheris.py under the tooling
interpreter (python3-vt) and turns what it reports into a FacetResult."""
import os
import re
import shutil
import subprocess
import tempfile

from . import repoenv
from .core import FacetResult, derive_seed

VT = shutil.which('python3-vt') or '/opt/veriftools/pyvenv/bin/python'


def available():
    return os.path.exists(VT)


def campaign(name, target, corpus, runs, seed, jobs=4, max_len=4096, with_O=False, sig_prefix='fuzz'):
    """corpus: list of bytes (seed inputs); one job always starts from an empty
    corpus; with_O adds a job under `python -O`."""
    res = FacetResult(name)
    if not available():
        res.notes.append('python3-vt (atheris) not available: campaign skipped')
        return res
    top = tempfile.mkdtemp(prefix='pelfuzz')
    procs = []
    try:
        plans = []
        for j in range(jobs):
            plans.append({'corpus': corpus if j != jobs - 1 else [], 'opt': False, 'label': 'job%d' % j})
        if with_O:
            plans.append({'corpus': corpus, 'opt': True, 'label': 'job-O'})
        for j, pl in enumerate(plans):
            cdir = os.path.join(top, pl['label'], 'corpus')
            odir = os.path.join(top, pl['label'], 'out')
            os.makedirs(cdir)
            os.makedirs(odir)
            for k, b in enumerate(pl['corpus']):
                with open(os.path.join(cdir, 'seed%03d' % k), 'wb') as f:
                    f.write(b)
            env = repoenv.child_env()
            env['PYTHONWARNINGS'] = 'ignore'
            if os.environ.get('VERIF_REPO'):
                env['VERIF_REPO'] = os.environ['VERIF_REPO']
            cmd = [VT] + (['-O'] if pl['opt'] else []) + [
                os.path.join(repoenv.VERIF_DIR, 'tools', 'fuzz_atheris.py'), target, odir, cdir,
                '-runs=%d' % runs, '-max_len=%d' % max_len, '-timeout=25',
                '-seed=%d' % (derive_seed(seed, name, j) % (2 ** 31 - 1) + 1), '-print_final_stats=1']
            log = open(os.path.join(top, pl['label'], 'log'), 'wb')
            procs.append((pl, odir, subprocess.Popen(cmd, stdout=log, stderr=subprocess.STDOUT, env=env,
                                                     cwd=repoenv.VERIF_DIR), log))
        for pl, odir, p, log in procs:
            p.wait()
            log.close()
            with open(log.name, 'r', errors='replace') as f:
                text = f.read()
            m = re.search(r'stat::number_of_executed_units:\s*(\d+)', text) or re.search(r'Done (\d+) runs', text)
            n = int(m.group(1)) if m else 0
            res.evaluations += n
            res.executions += n
            cov = re.findall(r'cov: (\d+)', text)
            res.labels['%s:%s' % (pl['label'], 'seeded' if pl['corpus'] else 'empty-corpus')] += n
            res.notes.append('%s: %d executions, final coverage %s edges, exit %s'
                             % (pl['label'], n, cov[-1] if cov else '?', p.returncode))
            found = [f for f in os.listdir(odir) if f.startswith('violation-') and f.endswith('.bin')]
            for fn in found:
                with open(os.path.join(odir, fn), 'rb') as f:
                    data = f.read()
                with open(os.path.join(odir, fn[:-4] + '.txt')) as f:
                    lines = f.read().split('\n', 1)
                res.violations.append({'sig': lines[0], 'oracle': sig_prefix, 'message': lines[1] if len(lines) > 1 else '',
                                       'case': {'data': {'$b': data.hex()}, 'optimize': pl['opt']}, 'seed': seed})
            crashes = [f for f in os.listdir(os.path.join(top, pl['label'])) if f.startswith(('crash-', 'timeout-'))]
            if p.returncode not in (0, 77) or crashes:
                # a libFuzzer-level crash/timeout inside the target: report it as such
                tail = text[-1500:]
                if 'timeout' in tail.lower() or any(c.startswith('timeout-') for c in crashes):
                    res.violations.append({'sig': sig_prefix + '.hang', 'oracle': sig_prefix,
                                           'message': 'libFuzzer reported a timeout: %s' % tail,
                                           'case': {'data': {'$b': ''}, 'optimize': pl['opt']}, 'seed': seed})
                else:
                    res.errors.append('fuzz job %s exited with %s: %s' % (pl['label'], p.returncode, tail))
        # distinct non-trivial: corpus entries the fuzzers kept (inputs that reached new coverage)
        kept = set()
        for pl, odir, p, log in procs:
            cdir = os.path.join(top, pl['label'], 'corpus')
            for fn in os.listdir(cdir):
                if not fn.startswith('seed'):
                    kept.add(fn)
        res.nontrivial = set(list(kept))
        for fn in list(kept)[:3]:
            for pl, odir, p, log in procs:
                pth = os.path.join(top, pl['label'], 'corpus', fn)
                if os.path.exists(pth):
                    with open(pth, 'rb') as f:
                        res.samples.append({'coverage_increasing_input_hex': f.read()[:200].hex()})
                    break
    finally:
        for pl, odir, p, log in procs:
            if p.poll() is None:
                p.kill()
        shutil.rmtree(top, ignore_errors=True)
    return res
