"""Small independent helpers used by oracles."""
import hashlib

from .core import Violation


def parse_default_dump(lines, where='hex dump'):
    """Independent reader of the default hex-dump layout

        AAAAAAAA     DDDDDDDD  DDDDDDDD  DDDDDDDD  DDDDDDDD     CCCCCCCCCCCCCCCC

    Returns the bytes; raises Violation if a line is not in that layout or the
    offsets are not consecutive.
    """
    if not isinstance(lines, list):
        raise Violation('hexdump-shape', '%s is not a list of lines: %r' % (where, type(lines).__name__))
    out = bytearray()
    for ln, line in enumerate(lines):
        if not isinstance(line, str) or len(line) < 13 + 2:
            raise Violation('hexdump-shape', '%s line %d is malformed: %r' % (where, ln, line))
        addr = line[:8]
        try:
            a = int(addr, 16)
        except ValueError:
            raise Violation('hexdump-shape', '%s line %d has no offset: %r' % (where, ln, line))
        if a != len(out):
            raise Violation('hexdump-shape', '%s line %d starts at offset %X but %X bytes precede it'
                            % (where, ln, a, len(out)))
        hexpart = line[13:13 + 38]
        digits = hexpart.replace(' ', '')
        try:
            b = bytes.fromhex(digits)
        except ValueError:
            raise Violation('hexdump-shape', '%s line %d has a malformed data column: %r'
                            % (where, ln, line))
        if not b:
            raise Violation('hexdump-shape', '%s line %d carries no data: %r' % (where, ln, line))
        out += b
    return bytes(out)


class Fill:
    """Deterministic byte source for the don't-care bits of enumerated cases
    (a pure function of its key, which is stored in the case)."""

    def __init__(self, *key):
        self.key = '|'.join(str(k) for k in key).encode()
        self.ctr = 0
        self.buf = b''

    def bytes(self, n):
        while len(self.buf) < n:
            self.buf += hashlib.sha256(self.key + b'#%d' % self.ctr).digest()
            self.ctr += 1
        out, self.buf = self.buf[:n], self.buf[n:]
        return out

    def int(self, lo, hi):
        span = hi - lo + 1
        return lo + int.from_bytes(self.bytes(8), 'big') % span

    def choice(self, seq):
        return seq[self.int(0, len(seq) - 1)]

    def text(self, n, alphabet='ABCDEFGHIJKLMNOPQRSTUVWXYZ0123456789'):
        return ''.join(self.choice(alphabet) for _ in range(n))


def expect_eq(oracle, what, got, want, sig=None):
    if got != want:
        raise Violation(oracle, '%s: shown %r, encoded %r' % (what, got, want),
                        sig=sig or '%s:%s' % (oracle, what))
