"""Outcome classification for arbitrary byte strings offered as a PEL; used
in-process (assertions on) and inside the `python -O` worker."""
import json
import sys

from .monitor import ReadMonitor, Watchdog, Hang
from .run import decode, make_config, mods

_mon = None


def monitor():
    global _mon
    if _mon is None:
        _mon = ReadMonitor(mods()['datastream']).install()
    return _mon


def outcome(data, plugins=False):
    """Decodes data and classifies what happened.

    kind: 'doc'       a document was produced
          'rejected'  an ordinary exception (subclass of Exception)
          'empty'     the empty result (header id check / filtered out)
          'base'      a BaseException that is not an Exception (SystemExit ...)
          'hang'      call bound exceeded or watchdog fired
    """
    mon = monitor()
    mon.reset(limit=4 * len(data) + 4096)
    with Watchdog(20):
        o = decode(data, make_config(allow_plugins=plugins))
    res = {'kind': None, 'exc': None, 'past_end': list(mon.past_end[:3]), 'calls': mon.calls,
           'json_ok': None, 'stdout': o.stdout[:200]}
    mon.reset()
    if o.exc is not None:
        res['exc'] = '%s: %s' % (type(o.exc).__name__, str(o.exc)[:200])
        if isinstance(o.exc, Hang):
            res['kind'] = 'hang'
        elif isinstance(o.exc, Exception):
            res['kind'] = 'rejected'
        else:
            res['kind'] = 'base'
    elif not o.text:
        res['kind'] = 'empty'
    else:
        res['kind'] = 'doc'
        res['json_ok'] = o.doc is not None
    return res


def prefixes(data, cuts=None):
    """every proper prefix (or the given cut points): list of [cut, outcome]
    for the cuts that were *not* rejected cleanly"""
    bad = []
    n = 0
    for cut in (range(len(data)) if cuts is None else cuts):
        if not (0 <= cut < len(data)):
            continue
        r = outcome(data[:cut])
        n += 1
        if r['kind'] not in ('rejected', 'empty') or r['past_end']:
            bad.append([cut, r])
            if len(bad) >= 5:
                break
    return {'bad': bad, 'n': n}
