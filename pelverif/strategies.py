"""Hypothesis strategies that *construct* PEL models (no filtering).

Soundness rules are documented in DESIGN.md section 3.1.
"""
from hypothesis import strategies as st

from . import model as M

KNOWN_CREATORS = 'BCHKLMOPST'

# optional section ids with a dedicated decoder are modelled as typed
# sections; these are the hexdump-only named ones
HEXDUMP_NAMED = ['DH', 'SW', 'LR', 'HM', 'EP', 'IE', 'MI', 'CH', 'EI']
COLLISION_IDS = ['ID', 'PE', 'MR']      # also callout substructure tags


def sid(s):
    return (ord(s[0]) << 8) | ord(s[1])


TYPED_IDS = {sid(x) for x in ['PH', 'UH', 'PS', 'SS', 'EH', 'MT', 'LP', 'UD', 'ED']}

# ---------------------------------------------------------------------------
# scalars
# ---------------------------------------------------------------------------


def uint(bits):
    top = (1 << bits) - 1
    edges = [0, 1, top, top >> 1, (top >> 1) + 1]
    if bits >= 32:
        edges += [0x0FFFFFFF, 0x10000000, 0x00000004, 0xFFFF, 0x10000]
    return st.one_of(st.integers(0, top), st.sampled_from(edges), st.integers(0, 255))


byte = st.integers(0, 255)
PRINTABLE = ''.join(chr(c) for c in range(0x20, 0x7F))
printable_char = st.sampled_from(PRINTABLE)


def text_field(width, min_len=0, alphabet=None, fill=b'\x00'):
    """printable ASCII of length min_len..width, right-padded to width."""
    alpha = st.sampled_from(alphabet) if alphabet else printable_char
    return st.text(alpha, min_size=min_len, max_size=width).map(
        lambda s: M.pad_text(s, width, fill))


ALNUM = 'ABCDEFGHIJKLMNOPQRSTUVWXYZ0123456789-'


def id_text(width, min_len=0):
    """Identifier-like text that never starts/ends with a blank (so an oracle
    never depends on whitespace stripping)."""
    return st.text(st.sampled_from(ALNUM), min_size=min_len, max_size=width).map(
        lambda s: M.pad_text(s, width))


SPECIAL_TEXT = ['"', ':', '": ', ': ', ' ', '{', '}', '\\', "'", ',', '[', '#', '%', '/']


def printable_field(width, min_len=0):
    """any printable ASCII (the properties quantify over 'all printable text of each fixed-width field'),
    boosted at the characters that are special to JSON and to the alignment pass; first and last character
    are not blanks so that no oracle depends on whitespace stripping"""
    piece = st.one_of(st.sampled_from(SPECIAL_TEXT), st.sampled_from(list(PRINTABLE)), st.sampled_from(list(ALNUM)))

    def build(parts):
        s = ''.join(parts)[:width]
        s = s.strip(' ')
        if len(s) < min_len:
            s = (s + 'X' * min_len)[:max(min_len, 1)]
        return M.pad_text(s, width)
    return st.lists(piece, min_size=0, max_size=width).map(build)


def field_text(width, min_len=0):
    return st.one_of(id_text(width, min_len), id_text(width, min_len), printable_field(width, min_len))


@st.composite
def bcd_timestamp(draw):
    # every nibble 0-9: (non-BCD nibbles are outside the claim)
    kind = draw(st.integers(0, 9))
    if kind == 0:
        # boundary stamps: never filled in (all zero), all nines, one field set
        return draw(st.sampled_from([bytes(8), b'\x99' * 8, bytes(7) + b'\x01', b'\x00\x01' + bytes(6),
                                     M.timestamp(0, 0, 0, 0, 0, 0, 0), M.timestamp(1, 1, 1), M.timestamp(999, 12, 31)]))
    realistic = kind < 5
    if realistic:
        return M.timestamp(draw(st.integers(1970, 2099)), draw(st.integers(1, 12)),
                           draw(st.integers(1, 31)), draw(st.integers(0, 23)),
                           draw(st.integers(0, 59)), draw(st.integers(0, 59)),
                           draw(st.integers(0, 99)))
    digits = draw(st.lists(st.integers(0, 9), min_size=16, max_size=16))
    return bytes((digits[2 * i] << 4) | digits[2 * i + 1] for i in range(8))


creator_byte = st.one_of(
    st.sampled_from([ord(c) for c in KNOWN_CREATORS]),
    st.sampled_from([ord('O'), ord('B'), ord('H'), ord('M')]),
    st.integers(0x20, 0x7E),
    st.integers(0x00, 0x7F),
)

comp_id = st.one_of(uint(16), st.sampled_from([0x2000, 0xE500, 0x2C00, 0x1000, 0x4142, 0x4100, 0x0041]))


def payload(max_len=64, big=False):
    sizes = [st.integers(1, max_len), st.sampled_from([1, 2, 15, 16, 17, 31, 32, 33, 47, 48, 49])]
    if big:
        sizes.append(st.sampled_from([255, 256, 257, 1024, 4095, 4096, 65527 - 0]))
    return st.one_of(*sizes).flatmap(lambda n: st.binary(min_size=n, max_size=n))


# ---------------------------------------------------------------------------
# headers
# ---------------------------------------------------------------------------

@st.composite
def private_header(draw, creator=None):
    plid = draw(uint(32))
    eid = draw(uint(32))
    return {
        'ver': draw(byte), 'sub': draw(byte), 'comp': draw(comp_id),
        'create': draw(bcd_timestamp()), 'commit': draw(bcd_timestamp()),
        'creator': draw(creator_byte) if creator is None else creator,
        'r0': draw(byte), 'r1': draw(byte),
        'obmc': draw(uint(32)), 'cver': draw(st.one_of(st.binary(min_size=8, max_size=8),
                                                      st.just(bytes(8)),
                                                      uint(16).map(lambda v: M.u64(v)))),
        'plid': plid, 'eid': eid, 'count': None,
    }


# severity: all 256 bytes, boosted at table values and below 0x10
severity_byte = st.one_of(byte, st.sampled_from([0x00, 0x10, 0x20, 0x40, 0x50, 0x51, 0x60, 0x71]),
                          st.integers(0, 0x0F))


@st.composite
def user_header(draw, selectable=False):
    """selectable=True forces a PEL that the default selection rule shows
    (serviceable and customer-viewable) so that it is decoded at all."""
    flags = draw(uint(16))
    sev = draw(severity_byte)
    if selectable:
        if sev == 0:
            flags = (flags | 0x8000) & ~0x4000
        else:
            flags = (flags | 0x2000) & ~0x4000
    return {
        'ver': draw(byte), 'sub': draw(byte), 'comp': draw(comp_id),
        'subsys': draw(byte), 'scope': draw(st.one_of(byte, st.integers(0, 5))),
        'sev': sev, 'etype': draw(st.one_of(byte, st.sampled_from([0, 1, 2, 8, 0x30]))),
        'r4': draw(uint(32)), 'domain': draw(byte), 'vector': draw(byte),
        'flags': flags, 'states': draw(st.one_of(uint(32), st.integers(0, 4).map(lambda v: v),
                                                 st.tuples(st.integers(0, 4), st.integers(0, 4)).map(
                                                     lambda t: (t[1] << 8) | t[0]))),
    }


def sec_common(draw):
    return {'ver': draw(byte), 'sub': draw(byte), 'comp': draw(comp_id)}


# ---------------------------------------------------------------------------
# SRC
# ---------------------------------------------------------------------------

HEXCH = '0123456789ABCDEF'


@st.composite
def src_ascii(draw, kind=None):
    """32 byte ASCII reference code field, blank padded."""
    kind = kind or draw(st.sampled_from(['BD', '11', 'BC', 'other', 'free']))
    if kind == 'free':
        # 1..32 printable chars not starting/ending with a blank
        n = draw(st.integers(1, 32))
        inner = draw(st.text(printable_char, min_size=max(0, n - 2), max_size=max(0, n - 2)))
        nb = st.sampled_from(PRINTABLE[1:])
        s = draw(nb) + (inner + draw(nb) if n >= 2 else '')
        return M.pad_text(s[:32], 32, b' ')
    if kind == 'other':
        head = draw(st.sampled_from(['B7', 'A7', '10', 'B1', 'BA', 'CC', 'E5']))
    else:
        head = kind
    rest = draw(st.text(st.sampled_from(HEXCH), min_size=6, max_size=6))
    return M.pad_text(head + rest, 32, b' ')


def loc_code():
    # 0..80 chars padded with NULs to a multiple of 4
    def pad4(s):
        b = s.encode('ascii')
        if len(b) % 4:
            b += b'\x00' * (4 - len(b) % 4)
        return b
    return st.one_of(
        st.just(b''),
        st.sampled_from([80, 79, 78, 77, 76, 75, 4, 1]).flatmap(
            lambda n: st.text(st.sampled_from(ALNUM + '.'), min_size=n, max_size=n)).map(pad4),
        st.text(st.sampled_from(ALNUM + '.'), min_size=1, max_size=80).map(pad4),
        st.sampled_from(['U78DA.ND1.1234567-P0', 'Ufcs-P0-C5', 'P1']).map(pad4))


FRU_TYPES = [0x10, 0x20, 0x30, 0x40, 0x90, 0xA0, 0xB0, 0xC0, 0xE0]


@st.composite
def fru_identity(draw):
    low = draw(st.integers(0, 15))
    high = draw(st.one_of(st.sampled_from(FRU_TYPES), st.integers(0, 15).map(lambda v: v << 4)))
    proc = draw(st.one_of(id_text(8, 1), st.sampled_from(
        ['BMC0001', 'BMC0002', 'BMC0004', 'BMC0008', 'BMC0009']).map(lambda s: M.pad_text(s, 8))))
    return {'flags': high | low, 'pn': proc, 'ccin': draw(id_text(4, 0)), 'sn': draw(id_text(12, 0))}


@st.composite
def pce_identity(draw, max_name):
    # the PCE name is a NUL terminated string padded to a multiple of 4, so
    # its field is never empty (a zero-length name is outside the domain)
    nlen = draw(st.sampled_from([n for n in (4, 8, 12, 16, 32) if n <= max_name]))
    name = draw(id_text(nlen, 0))
    return {'flags': draw(byte), 'mtm': draw(id_text(8, 0)), 'sn': draw(id_text(12, 0)), 'name': name}


@st.composite
def mru(draw, max_n=15):
    n = draw(st.integers(0, max_n))
    return {'fhi': draw(st.integers(0, 15)), 'r4': draw(uint(32)),
            'list': [[draw(uint(32)), draw(uint(32))] for _ in range(n)]}


@st.composite
def callout(draw):
    loc = draw(loc_code())
    fru = draw(fru_identity())
    c = {'flags': 0x20 | 0x08, 'prio': draw(st.one_of(
        st.sampled_from([0x48, 0x4D, 0x41, 0x42, 0x43, 0x4C]), byte)),
        'loc': loc, 'fru': fru, 'pce': None, 'mru': None}
    used = 4 + len(loc) + len(M.enc_fru(fru))
    if draw(st.integers(0, 3)) == 0:
        room = 255 - used - 24
        if room >= 4:
            c['pce'] = draw(pce_identity(min(32, room)))
            used += len(M.enc_pce(c['pce']))
    if draw(st.integers(0, 2)) == 0:
        room = (255 - used - 8) // 8
        if room >= 0:
            c['mru'] = draw(mru(min(15, room)))
            c['flags'] |= 0x04
    return c


@st.composite
def src_section(draw, primary=None, kind=None, max_callouts=4, callouts=None):
    common = sec_common(draw)
    if primary is None:
        primary = draw(st.booleans())
    flags = draw(byte) & 0xFE
    if callouts is None:
        callouts = draw(st.integers(0, 3)) != 0
    cs = None
    if callouts:
        n = draw(st.one_of(st.integers(0, max_callouts), st.integers(1, 2)))
        cs = {'ssid': 0xC0, 'ssflags': draw(byte), 'list': [draw(callout()) for _ in range(n)]}
        flags |= 0x01
    s = dict(common)
    s.update({'k': 'SRC', 'id': 'PS' if primary else 'SS', 'sver': draw(byte), 'flags': flags,
              'r1': draw(byte), 'wc': draw(st.one_of(st.just(9), st.integers(1, 9))),
              'r2': draw(uint(16)),
              'words': [draw(uint(32)) for _ in range(8)],
              'ascii': draw(src_ascii(kind)), 'callouts': cs})
    return s


# ---------------------------------------------------------------------------
# other typed sections
# ---------------------------------------------------------------------------

@st.composite
def eh_section(draw):
    s = sec_common(draw)
    sym_len = draw(st.one_of(st.just(0), st.integers(1, 80), st.sampled_from([4, 8, 40, 80, 255])))
    sym = draw(field_text(sym_len, 1)) if sym_len else b''
    s.update({'k': 'EH', 'mtm': draw(field_text(8)), 'sn': draw(field_text(12)), 'fw': draw(field_text(16)),
              'subfw': draw(field_text(16)), 'r4': draw(uint(32)), 'ref': draw(bcd_timestamp()),
              'r1': draw(byte), 'r2': draw(byte), 'r3': draw(byte), 'symptom': sym})
    return s


@st.composite
def mt_section(draw):
    s = sec_common(draw)
    s.update({'k': 'MT', 'mtm': draw(field_text(8)), 'sn': draw(field_text(12))})
    return s


@st.composite
def lp_section(draw, max_targets=12):
    s = sec_common(draw)
    nlen = draw(st.one_of(st.just(0), st.integers(1, 40), st.sampled_from([255, 64, 1])))
    name = draw(field_text(nlen, 1)) if nlen else b''
    nt = draw(st.one_of(st.integers(0, max_targets), st.sampled_from([0, 1, 2, 3])))
    s.update({'k': 'LP', 'pid': draw(uint(16)), 'logid': draw(uint(32)), 'name': name,
              'targets': [draw(uint(16)) for _ in range(nt)], 'pad': draw(uint(16))})
    return s


@st.composite
def ud_section(draw, max_len=64, big=False):
    s = sec_common(draw)
    s.update({'k': 'UD', 'data': draw(payload(max_len, big))})
    if draw(st.integers(0, 5)) == 0:
        # the BMC built-in formats (component 0x2000, subtype 1 JSON / 2 CBOR / 3 text / 4 custom)
        # with an arbitrary payload: still a structurally well-formed section
        s['comp'] = 0x2000
        s['sub'] = draw(st.sampled_from([1, 2, 3, 4]))
    return s


@st.composite
def ed_section(draw, max_len=64, big=False):
    s = sec_common(draw)
    s.update({'k': 'ED', 'creator': draw(st.one_of(byte, creator_byte)), 'r1': draw(byte),
              'r2': draw(uint(16)), 'data': draw(payload(max_len, big))})
    return s


NAMED_IDS = [sid(x) for x in ['PH', 'UH', 'PS', 'SS', 'EH', 'MT', 'LP', 'UD', 'ED'] + HEXDUMP_NAMED]
# ids that differ from a named id in one bit (high bits, letter case)
lookalike_id = st.tuples(st.sampled_from(NAMED_IDS), st.sampled_from([0x8000, 0x0080, 0x2000, 0x0020, 0x0100, 0x0001])
                         ).map(lambda t: t[0] ^ t[1])

unknown_id = st.one_of(
    uint(16), lookalike_id,
    st.tuples(st.integers(0x41, 0x5A), st.integers(0x41, 0x5A)).map(lambda t: (t[0] << 8) | t[1]),
).map(lambda v: v if v not in TYPED_IDS else 0x5A5A)  # PH/UH/typed ids are modelled as typed sections


@st.composite
def raw_section(draw, ids=None, max_len=64, big=False):
    s = sec_common(draw)
    if ids is None:
        ids = st.one_of(st.sampled_from([sid(x) for x in HEXDUMP_NAMED]), unknown_id,
                        st.sampled_from([sid(x) for x in COLLISION_IDS]))
    s.update({'k': 'RAW', 'id': draw(ids), 'data': draw(payload(max_len, big))})
    return s


def any_section(allow_ps, big=False):
    opts = [eh_section(), mt_section(), lp_section(), ud_section(big=big), ed_section(big=big),
            raw_section(big=big), src_section(primary=False)]
    if allow_ps:
        opts.append(src_section(primary=True))
    return st.one_of(*opts)


@st.composite
def sections(draw, max_sections=12, big=False):
    n = draw(st.integers(0, max_sections))
    out = []
    have_ps = False
    for _ in range(n):
        prev = out[-1] if out else None
        if prev is not None and prev['k'] == 'SRC' and prev['callouts'] and prev['callouts']['list'] \
                and draw(st.integers(0, 2)) == 0:
            # a section whose id equals a callout substructure tag directly
            # after an SRC with callouts: uniform choice would never get here
            s = draw(raw_section(ids=st.sampled_from([sid(x) for x in COLLISION_IDS])))
        else:
            s = draw(any_section(not have_ps, big))
        if s['k'] == 'SRC' and s['id'] == 'PS':
            have_ps = True
        out.append(s)
    return out


@st.composite
def pel_model(draw, max_sections=12, selectable=True, creator=None, big=False, secs=None):
    ph = draw(private_header(creator))
    uh = draw(user_header(selectable=selectable))
    ss = draw(sections(max_sections, big)) if secs is None else draw(secs)
    return {'ph': ph, 'uh': uh, 'secs': ss}
