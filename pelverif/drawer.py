"""I/O-drawer side: generators, file renderers and *reference decoders* for
ILOG (C14), trace buffers (C15), history logs (C16) and dumps (C17).

The reference decoders are written from the property statements and the
documented file grammars; they never call the repo's decoders.
"""
import os
import zlib
import struct
import tempfile

from hypothesis import strategies as st

from . import repoenv
from .core import Violation

_SHM = '/dev/shm' if os.path.isdir('/dev/shm') and os.access('/dev/shm', os.W_OK) else None

HEXD = '0123456789ABCDEF'


def drawer_dir():
    return os.path.join(repoenv.MODULES, 'io_drawer')


def shipped(name):
    return os.path.join(drawer_dir(), name)


_stable = {}


def _cleanup_stable():
    for d in list(_stable.values()):
        try:
            import shutil
            shutil.rmtree(d, ignore_errors=True)
        except Exception:
            pass


class TempFile:
    """a file that exists for the duration of one case.  Within one process the
    SAME path is reused for every case (per suffix): a header or string file is
    regenerated in place by a firmware build, so a decode must read the file as it
    is now, not as it was the first time this path was seen."""

    def __init__(self, text, suffix=''):
        self.text = text
        self.suffix = suffix
        self.path = None

    def __enter__(self):
        pid = os.getpid()
        if pid not in _stable:
            import atexit
            _stable.clear()
            _stable[pid] = tempfile.mkdtemp(prefix='pelverif_%s_' % os.environ.get('PELVERIF_RUN_TAG', 'x'), dir=_SHM)
            atexit.register(_cleanup_stable)
        self.path = os.path.join(_stable[pid], 'generated' + (self.suffix or '.txt'))
        with open(self.path, 'w', encoding='utf-8', newline='') as f:
            f.write(self.text)
        return self.path

    def __exit__(self, *a):
        try:
            os.unlink(self.path)
        except OSError:
            pass


def view(data):
    """the bytes handed to a decoder as one of the buffers a caller may legitimately hold: a view of a bytes or a
    bytearray object, or a window into a larger buffer whose surroundings look like decodable content.  Which one
    is a function of the data only (no randomness outside the generators, replays stay exact)."""
    mode = zlib.crc32(bytes(data)) % 5
    if mode == 0:
        return memoryview(bytes(data))
    if mode == 1:
        return memoryview(bytearray(data))
    before = b'\xEE\x00\x01' + b'\x02\x20\x01\x42' + b'POWR' + bytes(range(24, 64))
    after = b'\x02\x20\x01\x42' + b'FANS' + b'\x00\x01\x00\x00' + bytes(40)
    if mode == 2:
        whole = before + bytes(data) + after
    elif mode == 3:
        whole = bytearray(before + bytes(data) + after)
    else:
        whole = bytes(data) + after
        return memoryview(whole)[:len(data)]
    return memoryview(whole)[len(before):len(before) + len(data)]


def default_hexdump_lines(data):
    """our own renderer of the default hex dump layout"""
    out = []
    for i in range(0, len(data), 16):
        chunk = data[i:i + 16]
        hx = chunk.hex().upper()
        groups = '  '.join(hx[j:j + 8] for j in range(0, len(hx), 8))
        text = ''.join(chr(b) if 0x20 <= b < 0x7F else '.' for b in chunk)
        out.append('%08X     %s     %s' % (i, groups.ljust(38), text.ljust(16)))
    return out


# ===========================================================================
# header file (PTE table + history log fields)
# ===========================================================================

def escape_c(s):
    return s.replace('"', '\\"')


def render_pte_table(entries, style):
    """entries: list of dicts pattern, fmt, params(list of int digits), file, line"""
    lines = []
    static = 'static ' if style.get('static') else ''
    if style.get('brace_same_line'):
        lines.append('%sstruct pte_entry_struct static_pte_entry_table[PTE_TABLE_SIZE] = {' % static)
    else:
        lines.append('%sstruct pte_entry_struct static_pte_entry_table[PTE_TABLE_SIZE] = ' % static)
        lines.append('{')
    sp = ' ' * style.get('indent', 2)
    for i, e in enumerate(entries):
        params = ', '.join(str(p) for p in e['params']) if style.get('param_space', True) \
            else ','.join(str(p) for p in e['params'])
        lines.append('%s{ "%s", "%s", {%s}, "%s", %d },%s' % (
            sp, e['pattern'], escape_c(e['fmt']), params, e['file'], e['line'],
            ' ' if style.get('trailing_blank') else ''))
        if style.get('comments') and i % 3 == 1:
            lines.append('%s// generated' % sp)
        if style.get('commented_elements') and i % 4 == 0:
            # a retired entry that was commented out: not a declaration
            lines.append('%s// { "%s", "retired %s", {1}, "old.cpp", 1 },' % (sp, e['pattern'][:8] or 'FFFFFFFF',
                                                                             escape_c(e['fmt'])[:20]))
            lines.append('%s/* { "FFFF****", "retired too", {}, "old.cpp", 2 }, */' % sp)
    lines.append('%s{ ""        , "The End" }' % sp)
    lines.append('};')
    return lines


def render_hlog_fields(fields, style):
    lines = []
    static = 'static ' if style.get('static') else ''
    if style.get('brace_same_line'):
        lines.append('%sstruct mex_hlog_field mex_hlog_fields[MEX_HLOG_FIELD_COUNT] = {' % static)
    else:
        lines.append('%sstruct mex_hlog_field mex_hlog_fields[MEX_HLOG_FIELD_COUNT] =' % static)
        lines.append('{')
    sp = ' ' * style.get('indent', 2)
    for i, (size, name) in enumerate(fields):
        last = i == len(fields) - 1
        comma = '' if (last and style.get('no_last_comma')) else ','
        lines.append('%s{ %d, "%s" }%s%s' % (sp, size, name, comma, ' ' if style.get('trailing_blank') else ''))
        if style.get('comments') and i % 4 == 2:
            lines.append('%s/* counter */' % sp)
        if style.get('commented_elements') and i % 3 == 0:
            lines.append('%s// { 2, "hl_retired_counter" },' % sp)
            lines.append('%s/* { 1, "hl_old_flag" }, */' % sp)
    lines.append('};')
    return lines


PREAMBLE = ['// THIS IS AN AUTOGENERATED .h file', '#define MAX_PTE_LENGTH 9', 'struct pte_entry_struct',
            '{', '  char key[MAX_PTE_LENGTH];', '};', '', '#define PTE_TABLE_SIZE 616', '']
HLOG_PREAMBLE = ['', 'struct mex_hlog_field', '{', '  uint8_t size;', '  char name[64];', '};', '']


def render_header_file(pte_entries=None, hlog_fields=None, style=None):
    style = style or {}
    lines = []
    if style.get('preamble', True):
        lines += PREAMBLE
    if pte_entries is not None:
        lines += render_pte_table(pte_entries, style)
    if hlog_fields is not None:
        if style.get('preamble', True):
            lines += HLOG_PREAMBLE
        lines += render_hlog_fields(hlog_fields, style)
    return '\n'.join(lines) + '\n'


style_st = st.fixed_dictionaries({
    'static': st.booleans(), 'brace_same_line': st.booleans(), 'indent': st.integers(0, 6),
    'param_space': st.booleans(), 'trailing_blank': st.booleans(), 'comments': st.booleans(),
    'no_last_comma': st.booleans(), 'preamble': st.booleans(), 'commented_elements': st.booleans()})


def read_shipped_pte_table(path):
    """independent tokenizer for the shipped header files (no regexes from the
    repo): returns the PTE entries in file order"""
    entries = []
    in_table = False
    with open(path) as f:
        for raw in f:
            line = raw.strip()
            if 'static_pte_entry_table' in line and '=' in line:
                in_table = True
                continue
            if not in_table:
                continue
            if line.startswith('};'):
                break
            if not line.startswith('{') or '"' not in line:
                continue
            toks = _c_tokens(line)
            # { "pat" , "fmt" , { a , b } , "file" , 123 } ,
            strs = [t[1] for t in toks if t[0] == 's']
            if len(strs) == 2 and strs[0] == '':
                break       # { "", "The End" }
            if len(strs) != 3:
                continue
            # parameters: the numbers between the inner braces
            depth = 0
            params, nums_after = [], []
            for t in toks:
                if t == ('p', '{'):
                    depth += 1
                elif t == ('p', '}'):
                    depth -= 1
                elif t[0] == 'n':
                    if depth == 2:
                        params.append(int(t[1]))
                    elif depth == 1:
                        nums_after.append(int(t[1]))
            entries.append({'pattern': strs[0], 'fmt': strs[1].strip(), 'params': params,
                            'file': strs[2], 'line': nums_after[-1] if nums_after else 0})
    return entries


def _c_tokens(line):
    toks = []
    i = 0
    while i < len(line):
        c = line[i]
        if c == '"':
            j = i + 1
            buf = []
            while j < len(line):
                if line[j] == '\\' and j + 1 < len(line) and line[j + 1] == '"':
                    buf.append('"')
                    j += 2
                    continue
                if line[j] == '"':
                    break
                buf.append(line[j])
                j += 1
            toks.append(('s', ''.join(buf)))
            i = j + 1
        elif c in '{}':
            toks.append(('p', c))
            i += 1
        elif c.isdigit():
            j = i
            while j < len(line) and line[j].isdigit():
                j += 1
            toks.append(('n', line[i:j]))
            i = j
        else:
            i += 1
    return toks


def read_shipped_hlog_fields(path):
    fields = []
    inside = False
    with open(path) as f:
        for raw in f:
            line = raw.strip()
            if 'mex_hlog_fields' in line and '=' in line:
                inside = True
                continue
            if not inside:
                continue
            if line.startswith('};'):
                break
            if line.startswith('{') and '"' in line:
                toks = _c_tokens(line)
                nums = [int(t[1]) for t in toks if t[0] == 'n']
                strs = [t[1] for t in toks if t[0] == 's']
                if nums and strs:
                    fields.append((nums[0], strs[0]))
    return fields


# ===========================================================================
# ILOG reference decoder (C14)
# ===========================================================================

def ref_timestamp(ts):
    if ts >= 0xFFFF:
        return '--------'
    h, rem = divmod(ts, 3600)
    m, s = divmod(rem, 60)
    return '%2d:%02d:%02d' % (h, m, s)


def pattern_matches(pattern, pte):
    hx = '%08X' % pte
    if len(pattern) != 8:
        return False
    for pc, hc in zip(pattern, hx):
        if pc == '*':
            continue
        if pc.upper() != hc:
            return False
    return True


_overlaps = {}


def order_sensitive_ptes(name, limit=8):
    """PTE values of a shipped table on which the ORDER of the table decides the answer: for a wildcard entry that
    follows a more specific entry it also covers, one value both match and one value only the wildcard entry matches.
    Deterministic (first `limit` such pairs in table order)."""
    if name in _overlaps:
        return _overlaps[name]
    table = read_shipped_pte_table(shipped(name))
    out = []
    for j, general in enumerate(table):
        pat = general['pattern']
        if len(pat) != 8 or '*' not in pat:
            continue
        for specific in table[:j]:
            sp = specific['pattern']
            if len(sp) != 8 or '*' in sp:
                continue
            v = int(sp, 16)
            if not pattern_matches(pat, v):
                continue
            if ref_ilog_message([specific], v) == ref_ilog_message([general], v):
                continue        # both entries say the same about v: their order is unobservable
            # a value only the general entry (and no earlier one) matches
            for d in '0123456789ABCDEF':
                w = int(''.join(d if c == '*' else c for c in pat), 16)
                if w != v and next((k for k, e in enumerate(table) if pattern_matches(e['pattern'], w)), None) == j:
                    if (v, w) not in out:
                        out.append((v, w))
                    break
            if len(out) >= limit:
                break
        if len(out) >= limit:
            break
    _overlaps[name] = out
    return out


_distinct = {}


def drawer_type_sensitive_ptes(limit=12):
    """PTE values that the two shipped tables (MEX, Nimitz) describe differently: a decoder that consults the table of
    the wrong drawer type is visible on them.  Deterministic."""
    if 'pte' in _distinct:
        return _distinct['pte']
    a = read_shipped_pte_table(shipped('mex_pte.h'))
    b = read_shipped_pte_table(shipped('nimitz_pte.h'))
    out = []
    for table in (a, b):
        for e in table:
            pat = e['pattern']
            if len(pat) != 8:
                continue
            v = int(pat.replace('*', '1'), 16)
            if ref_ilog_message(a, v) != ref_ilog_message(b, v) and v not in out:
                out.append(v)
            if len(out) >= limit:
                break
    _distinct['pte'] = out
    return out


def drawer_type_sensitive_hashes(limit=12):
    """trace-string hashes whose text differs between the two shipped string files (or that only one of them has)"""
    if 'hash' in _distinct:
        return _distinct['hash']
    tabs = []
    for name in ('mexStringFile', 'nimitzStringFile'):
        with open(shipped(name)) as f:
            tabs.append({t['hash']: t['fmt'] for t in ref_trace_strings(f.read())})
    out = [h for h in sorted(set(tabs[0]) | set(tabs[1])) if tabs[0].get(h) != tabs[1].get(h)][:limit]
    _distinct['hash'] = out
    return out


def is_reported_error(pte):
    return (pte >> 28) == 0xE and (pte & 0x00040000) != 0


def ref_ilog_message(entries, pte):
    reported = is_reported_error(pte)
    hit = None
    for e in entries:
        if pattern_matches(e['pattern'], pte) or \
                (reported and pattern_matches(e['pattern'], pte & ~0x00040000 & 0xFFFFFFFF)):
            hit = e
            break
    if hit is None:
        return 'Undefined'
    b = struct.pack('>I', pte)
    values = tuple(b[p - 1] for p in hit['params'] if 1 <= p <= 4)
    try:
        msg = hit['fmt'] % values
    except Exception:
        msg = hit['fmt']
    if reported:
        msg += ' - PEL entry created'
    return msg


def ref_ilog_lines(entries, data):
    """the lines after the two heading lines"""
    out = []
    for off in range(0, len(data) - 7, 8):
        ts, seq, pte = struct.unpack('>HHI', data[off:off + 8])
        if ts == 0 and seq == 0 and pte == 0:
            continue
        out.append('%s %04X %08X %s' % (ref_timestamp(ts), seq, pte, ref_ilog_message(entries, pte)))
    return out


# --- generators -------------------------------------------------------------

CONVERSIONS = ['%d', '%u', '%x', '%02X', '%c', '%s', '%%', '0x%02X', '%3d']
WORDS = ['Power', 'on', 'fan', 'IO bay', 'fault', 'cleared', 'level =', 'state', 'VRM in "N-Mode"',
         'PS', '-', 'rc', 'P1', '100%%']


@st.composite
def message_format(draw):
    n = draw(st.integers(1, 6))
    parts = [draw(st.sampled_from(WORDS + CONVERSIONS)) for _ in range(n)]
    s = ' '.join(parts).strip()
    return s or 'x'


@st.composite
def pte_pattern(draw, base=None):
    """an 8 character pattern over hex digits and '*'"""
    if base is None or len(base) != 8:
        digits = [draw(st.sampled_from(HEXD)) for _ in range(8)]
        if draw(st.integers(0, 2)) == 0:
            digits[0] = 'E'
    else:
        digits = list(base)
        if digits[3] != '*' and draw(st.integers(0, 3)) == 0:
            # the counterpart of the base pattern with the other value of the reported flag
            digits[3] = '%X' % (int(digits[3], 16) ^ 0x4)
    for i in range(8):
        if draw(st.integers(0, 3)) == 0:
            digits[i] = '*'
        elif digits[i] == '*' and draw(st.booleans()):
            digits[i] = draw(st.sampled_from(HEXD))
    if draw(st.integers(0, 9)) == 0:
        digits = [d.lower() for d in digits]
    return ''.join(digits)


@st.composite
def pte_table(draw, max_entries=40):
    n = draw(st.integers(0, max_entries))
    entries = []
    for _ in range(n):
        base = None
        if entries and draw(st.booleans()):
            base = draw(st.sampled_from(entries))['pattern'].upper()
        pat = draw(pte_pattern(base))
        if draw(st.integers(0, 14)) == 0:
            pat = pat[:draw(st.integers(1, 7))]      # wrong length: can never match
        params = draw(st.lists(st.integers(0, 9), max_size=3))
        entries.append({'pattern': pat, 'fmt': draw(message_format()), 'params': params,
                        'file': draw(st.sampled_from(['states.cpp', 'mps.cpp', 'fan.cpp', ''])),
                        'line': draw(st.integers(0, 99999))})
    return entries


def fill_pattern(draw, pattern):
    digits = []
    for c in pattern.upper():
        digits.append(draw(st.sampled_from(HEXD)) if c == '*' else c)
    return int(''.join(digits), 16)


@st.composite
def ilog_bytes(draw, entries, max_entries=24):
    n = draw(st.integers(0, max_entries))
    out = b''
    usable = [e for e in entries if len(e['pattern']) == 8]
    seen = []
    for _ in range(n):
        kind = draw(st.integers(0, 11))
        if kind >= 10 and seen:
            # an entry that occurred earlier in this log, again: as it was, or with the other value of the reported flag
            pte = draw(st.sampled_from(seen))
            if draw(st.integers(0, 3)) != 0:
                pte ^= 0x00040000
        elif kind <= 4 and usable:
            e = draw(st.sampled_from(usable))
            pte = fill_pattern(draw, e['pattern'])
            if draw(st.integers(0, 2)) == 0:
                pte |= 0x00040000           # reported-flag variant
            if draw(st.integers(0, 5)) == 0:
                pte = (pte & 0x0FFFFFFF) | 0xE0000000
            if draw(st.integers(0, 5)) == 0:
                pte ^= 1 << draw(st.integers(0, 31))    # near miss
        elif kind == 5:
            pte = 0
        elif kind == 6:
            pte = 0xE0040000 | draw(st.integers(0, 0xFFFF)) | (draw(st.integers(0, 0xF)) << 24)
        else:
            pte = draw(st.integers(0, 0xFFFFFFFF))
        ts = draw(st.one_of(st.integers(0, 0xFFFF), st.sampled_from([0, 0xFFFF, 0xFFFE, 3599, 3600, 59, 60])))
        seq = draw(st.one_of(st.integers(0, 0xFFFF), st.just(0)))
        if kind == 5 and draw(st.booleans()):
            ts, seq = 0, 0
        out += struct.pack('>HHI', ts, seq, pte)
        seen.append(pte)
    out += draw(st.binary(max_size=7))
    return out


# ===========================================================================
# trace buffers (C15)
# ===========================================================================

BUFFER_NAMES = ['IICS', 'IICM', 'POWR', 'FANS', 'INFO', 'ERRL']
HEADER_START = b'\x02\x20\x01\x42'
INDENT = ' ' * 20


def ref_trace_strings(text):
    """reference reader of a trace string file: lines <hash>||<message>||<location>"""
    out = []
    for raw in text.split('\n'):
        line = raw
        parts = line.split('||')
        if len(parts) < 3:
            continue
        head = parts[0].strip()
        if not head.isdigit() or not head.isascii():
            continue
        out.append({'hash': int(head), 'fmt': '||'.join(parts[1:-1]).strip(), 'loc': parts[-1].strip()})
    return out


def ref_lookup(strings, h):
    partial = None
    for s in strings:
        if s['hash'] == h:
            return s, False
        if s['hash'] % 100000 == h % 100000:
            partial = s
    if partial is not None:
        return partial, True
    return None, False


def ref_trace_entries(data):
    """(declared header fields, list of entries) per the framing rules; None
    if fewer than 32 bytes"""
    if len(data) < 32:
        return None
    ver, hdr_len, time_flg, endian = data[0], data[1], data[2], data[3]
    comp = data[4:16]
    size, wrap, next_free = struct.unpack('>III', data[20:32])
    pos = 32
    entries = []
    n = len(data)
    while pos < size:
        start = pos
        if n - pos < 16:
            break
        tbh, tbl, length, tag, hashv, line = struct.unpack('>HHHHII', data[pos:pos + 16])
        pos += 16
        if length > 1024:
            break
        if length == 0:
            payload = b''
        else:
            if n - pos < length:
                break
            payload = data[pos:pos + length]
            pos += length
            if length % 4:
                pad = 4 - length % 4
                if n - pos < pad:
                    break
                pos += pad
        if n - pos < 4:
            break
        (esize,) = struct.unpack('>I', data[pos:pos + 4])
        pos += 4
        if esize != pos - start:
            break
        entries.append({'tbh': tbh, 'tbl': tbl, 'tag': tag, 'hash': hashv, 'line': line, 'data': payload})
    return {'ver': ver, 'comp': comp, 'size': size, 'wrap': wrap}, entries


def ref_entry_lines(e, strings):
    s, partial = ref_lookup(strings, e['hash'])
    binary = e['tag'] == 0x4644
    if s is not None:
        args = ()
        if not binary:
            k = min(5, len(e['data']) // 4)
            args = struct.unpack('>%dI' % k, e['data'][:4 * k]) if k else ()
        try:
            msg = s['fmt'] % tuple(args)
        except Exception:
            msg = s['fmt']
    else:
        msg = 'No trace string found with hash value %d' % e['hash']
    out = ['%s %04X %5d %s' % (ref_timestamp(e['tbh']), e['tbl'], e['line'], msg)]
    if partial:
        out.append('%sWarning: Partial match with trace string from %s' % (INDENT, s['loc']))
    if binary or s is None or partial:
        out.extend(INDENT + l for l in default_hexdump_lines(e['data']))
    return out


def ref_component(comp_bytes):
    text = comp_bytes.decode('ascii', 'ignore')
    return text.rstrip('\0').rstrip(' ')


def compare_trace_output(lines, data, strings, ascii_name_only=True, oracle='C15'):
    """Compares the repo's parse_trace_data output with the reference."""
    ref = ref_trace_entries(data)
    if ref is None:
        if len(lines) < 1:
            raise Violation(oracle + '.fallback', 'no output for %d bytes of unparseable trace data' % len(data))
        from .util import parse_default_dump
        got = parse_default_dump(lines[1:], 'fallback dump') if len(lines) > 1 else b''
        if got != data:
            raise Violation(oracle + '.fallback', 'fallback dump carries %s for input %s' % (got.hex(), data.hex()),
                            sig=oracle + '.fallback')
        return 'fallback', 0
    hdr, entries = ref
    want_head = ['Component: %s' % ref_component(hdr['comp']), 'Version: %d' % hdr['ver'],
                 'Size: %d' % hdr['size'], 'Times Wrapped: %d' % hdr['wrap'], '']
    if len(lines) < 7:
        raise Violation(oracle + '.header', 'output too short for a readable header: %r' % lines, sig=oracle + '.header')
    name_ok = all(0x20 <= b < 0x7F or b == 0 for b in hdr['comp'])
    for i, (g, w) in enumerate(zip(lines[:5], want_head)):
        if i == 0 and ascii_name_only and not name_ok:
            continue
        if g != w:
            raise Violation(oracle + '.header', 'header line %d is %r, stored values give %r' % (i, g, w),
                            sig=oracle + '.header')
    want = []
    for e in entries:
        want.extend(ref_entry_lines(e, strings))
    got = lines[7:]
    if got != want:
        # find first difference for the message
        k = 0
        while k < min(len(got), len(want)) and got[k] == want[k]:
            k += 1
        raise Violation(oracle + '.entries',
                        'entry output differs at line %d: shown %r, expected %r (%d vs %d lines, %d entries)'
                        % (k, got[k] if k < len(got) else None, want[k] if k < len(want) else None,
                           len(got), len(want), len(entries)), sig=oracle + '.entries')
    return 'header', len(entries)


# --- generators -------------------------------------------------------------

TRACE_FORMATS = ['E> Dev 0x%x: Fail count = %d', 'I> trace_level = %u', 'Cmd Data: 0x%08X', 'no args here',
                 '%s state %d %d %d %d %d', 'rc %d', '100%% done %c', 'I> %x %x %x %x %x %x', 'bad %q spec',
                 '', 'I> A || B', 'fan at 100%% duty', '%%', 'rate = %d%%', '50%% of %u%%']


@st.composite
def string_file(draw, max_strings=30):
    n = draw(st.integers(0, max_strings))
    strings = []
    for _ in range(n):
        if strings and draw(st.integers(0, 2)) == 0:
            base = draw(st.sampled_from(strings))['hash']
            h = base if draw(st.integers(0, 3)) == 0 else \
                (base % 100000) + 100000 * draw(st.integers(0, 42949))
        else:
            h = draw(st.integers(0, 0xFFFFFFFF))
        fmt = draw(st.sampled_from(TRACE_FORMATS[:-1]))
        strings.append({'hash': h & 0xFFFFFFFF, 'fmt': fmt,
                        'loc': '%s(%d)' % (draw(st.sampled_from(['fan.cpp', 'adt7470_fan_ctl.cpp', 'x.C'])),
                                           draw(st.integers(0, 9999)))})
    return strings


def render_string_file(strings, header_line=True):
    lines = []
    if header_line:
        lines.append('#FSP_TRACE_v2|||Thu Sep 24 12:55:43 2020|||BUILD:Release')
    for s in strings:
        lines.append('%d||%s||%s' % (s['hash'], s['fmt'], s['loc']))
    return '\n'.join(lines) + ('\n' if lines else '')


def enc_trace_entry(e):
    length = len(e['data']) if e.get('length') is None else e['length']
    body = struct.pack('>HHHHII', e['tbh'], e['tbl'], length & 0xFFFF, e['tag'], e['hash'], e['line'])
    body += e['data']
    pad = e.get('pad')
    if pad is None:
        pad = (4 - len(e['data']) % 4) % 4
    body += b'\x00' * pad
    total = len(body) + 4
    trailer = total if e.get('trailer') is None else e['trailer']
    return body + struct.pack('>I', trailer & 0xFFFFFFFF)


def enc_trace_buffer(buf):
    encs = [enc_trace_entry(e) for e in buf['entries']]
    entries = b''.join(encs)
    total = 32 + len(entries)
    mode = buf.get('size_mode', 'actual')
    # 'boundary': the declared size ends exactly where the k-th entry starts
    k = buf.get('size_delta', 0) % (len(encs) + 1)
    boundary = 32 + sum(len(x) for x in encs[:k])
    size = {'actual': total, 'zero': 0, 'larger': total + buf.get('size_delta', 100),
            'smaller': max(0, total - buf.get('size_delta', 20)), 'huge': 0xFFFFFFFF,
            'boundary': boundary}[mode]
    name = buf['name']
    hdr = bytes([buf['ver'], buf['hdr_len'], buf['time_flg'], buf['endian']]) + name \
        + struct.pack('>IIII', buf.get('reserved', 0), size, buf['wrap'], buf.get('next_free', total))
    return hdr + entries


@st.composite
def trace_entry(draw, strings):
    kind = draw(st.integers(0, 9))
    if strings and kind <= 4:
        h = draw(st.sampled_from(strings))['hash']
        if draw(st.integers(0, 2)) == 0:
            h = (h % 100000 + 100000 * draw(st.integers(0, 42949))) & 0xFFFFFFFF   # partial hit
    else:
        h = draw(st.integers(0, 0xFFFFFFFF))
    n = draw(st.one_of(st.integers(0, 24), st.sampled_from([0, 1, 2, 3, 4, 5, 8, 19, 20, 21, 1023, 1024]),
                       st.integers(0, 300)))
    data = draw(st.binary(min_size=n, max_size=n))
    e = {'tbh': draw(st.one_of(st.integers(0, 0xFFFF), st.sampled_from([0, 0xFFFF, 35551]))),
         'tbl': draw(st.integers(0, 0xFFFF)),
         'tag': draw(st.sampled_from([0x4654, 0x4654, 0x4644, 0x4644, 0x0000, 0x4655])),
         'hash': h, 'line': draw(st.one_of(st.integers(0, 99999), st.integers(0, 0xFFFFFFFF))),
         'data': data, 'length': None, 'pad': None, 'trailer': None}
    flaw = draw(st.integers(0, 50))
    if flaw == 0:
        e['trailer'] = draw(st.integers(0, 0xFFFFFFFF))
    elif flaw == 1:
        e['pad'] = draw(st.integers(0, 7))
    elif flaw == 2:
        e['length'] = draw(st.sampled_from([1025, 1026, 0xFFFF, len(data) + 1, max(0, len(data) - 1)]))
    return e


@st.composite
def trace_buffer(draw, strings, max_entries=10, name=None):
    nm = name if name is not None else draw(st.sampled_from(BUFFER_NAMES + ['TEST', 'ABCDEFGHIJKL', '']))
    fill = draw(st.sampled_from(['nul', 'space', 'space-nul']))
    raw = nm.encode('ascii')[:12]
    room = 12 - len(raw)
    if fill == 'nul':
        raw += b'\x00' * room
    elif fill == 'space':
        raw += b' ' * room
    else:
        k = draw(st.integers(0, room))
        raw += b' ' * k + b'\x00' * (room - k)
    std = draw(st.integers(0, 3)) != 0
    return {
        'ver': 2 if std else draw(st.integers(0, 255)), 'hdr_len': 0x20 if std else draw(st.integers(0, 255)),
        'time_flg': 1 if std else draw(st.integers(0, 255)), 'endian': 0x42 if std else draw(st.integers(0, 255)),
        'name': raw, 'reserved': draw(st.sampled_from([0, 0, 0xFFFFFFFF])),
        'wrap': draw(st.one_of(st.integers(0, 300), st.integers(0, 0xFFFFFFFF))),
        'size_mode': draw(st.sampled_from(['actual'] * 6 + ['larger', 'larger', 'smaller', 'boundary', 'boundary', 'zero', 'huge'])),
        'size_delta': draw(st.integers(1, 64)),
        'entries': draw(st.lists(trace_entry(strings), max_size=max_entries)),
    }


# ===========================================================================
# history log (C16)
# ===========================================================================

FIELD_NAME_CHARS = 'abcdefghijklmnopqrstuvwxyz_0123456789'


@st.composite
def hlog_fields(draw, max_fields=60):
    n = draw(st.integers(0, max_fields))
    out = []
    for i in range(n):
        name = 'hl_' + draw(st.text(st.sampled_from(FIELD_NAME_CHARS), min_size=1, max_size=24))
        if draw(st.integers(0, 9)) == 0:
            name = draw(st.sampled_from(['crc failures (net)', 'a:b', 'x y z', '{odd}', 'hl_power_ups']))
        out.append((draw(st.sampled_from([1, 1, 2])), name))
    return out


def ref_hlog_field_lines(fields, data):
    out = []
    pos = 0
    for size, name in fields:
        if pos + size > len(data):
            break
        v = int.from_bytes(data[pos:pos + size], 'big')
        pos += size
        if v != 0:
            out.append('%s: 0x%0*X' % (name, 2 * size, v))
    return out
