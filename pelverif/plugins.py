"""Fixture parser modules (user-data, SRC, callout) for C04 / C18 / C19.

One generic recording module body is materialised under generated names in a
temporary directory that is appended to the real packages' __path__ :

    <tmp>/udparsers/<name>/<name>.py          parseUDToJson(subtype, version, data)
    <tmp>/srcparsers/<name>/<name>.py         parseSRCToJson(refcode, w2..w9)
    <tmp>/calloutparsers/<name>/<name>.py     getMaintProcDesc(procedure)

Behaviour per call is table driven (return a JSON value, return None, return
raw text, raise one of several exception types); every call is recorded.  The
table and the call log live in the module `pelverif_fixture_state`, which the
harness injects into sys.modules; in a separate interpreter (real CLI runs)
the fixtures fall back to $PELVERIF_BEHAVIOUR (JSON file) and append their
calls to $PELVERIF_CALLLOG.
"""
import importlib
import json
import os
import shutil
import sys
import tempfile
import types

from . import run as _run

FIXTURE_BODY = r'''
import json, os, sys
_NAME = __name__
_KIND = %(kind)r


def _state():
    st = sys.modules.get('pelverif_fixture_state')
    if st is not None:
        return st.behaviour, st.calls.append
    beh = {}
    p = os.environ.get('PELVERIF_BEHAVIOUR')
    if p and os.path.exists(p):
        with open(p) as f:
            beh = json.load(f)

    def rec(entry):
        log = os.environ.get('PELVERIF_CALLLOG')
        if log:
            with open(log, 'a') as f:
                f.write(json.dumps(entry) + '\n')
    return beh, rec


def _act(args, default):
    beh, rec = _state()
    rec([_KIND, _NAME, args])
    b = beh.get(_NAME)
    if isinstance(b, dict) and 'sequence' in b:
        seq = b['sequence']
        i = b.get('_i', 0)
        b['_i'] = i + 1
        b = seq[min(i, len(seq) - 1)]
    if not b:
        return default
    k = b.get('kind')
    if k == 'input':
        # behaviour is a function of the arguments only (used for history
        # independence checks): raise / return None / return a digest
        h = sum(json.dumps(args).encode())
        m = h % 7
        if m == 0:
            raise ValueError('fixture rejects this input in ' + _NAME)
        if m == 1 and b.get('importerror', True):
            raise ImportError('fixture lazy import failed in ' + _NAME)
        if m == 2:
            return None
        if _KIND == 'calloutparsers':
            return json.dumps(['described by ' + _NAME, 'digest %d' % h])
        return json.dumps({'Fixture': _NAME, 'ArgsDigest': h})
    if k == 'json':
        return json.dumps(b['value'])
    if k == 'text':
        return b['value']
    if k == 'none':
        return None
    if k == 'raise':
        name = b['exc']
        if name == 'UnicodeDecodeError':
            raise UnicodeDecodeError('utf-8', b'\xff', 0, 1, 'fixture')
        if name == 'LazyImport':
            import pelverif_module_that_does_not_exist   # a lazy import failing inside the parser
        # the message carries format-string metacharacters on purpose
        raise {'ValueError': ValueError, 'KeyError': KeyError, 'AssertionError': AssertionError,
               'ZeroDivisionError': ZeroDivisionError, 'ImportError': ImportError,
               'ModuleNotFoundError': ModuleNotFoundError, 'RuntimeError': RuntimeError,
               'IndexError': IndexError, 'TypeError': TypeError}[name](
            b.get('msg', "fixture failure {0} {} {'id': 5} %s %d 100% in ") + _NAME)
    return default


def parseUDToJson(subtype, version, data):
    return _act([subtype, version, bytes(data).hex()],
                json.dumps({'Fixture': _NAME, 'Subtype': subtype, 'Version': version, 'Length': len(data)}))


def parseSRCToJson(refcode, word2, word3, word4, word5, word6, word7, word8, word9):
    return _act([refcode, word2, word3, word4, word5, word6, word7, word8, word9],
                json.dumps({'Fixture': _NAME, 'Refcode': refcode}))


def getMaintProcDesc(procedure):
    return _act([procedure], json.dumps(['fixture description of ' + procedure]))
'''

IMPORT_FAIL_BODY = {
    'RuntimeError': "raise RuntimeError('fixture module fails at import: table {missing} 100%')\n",
    'SyntaxError': "def parseUDToJson(subtype, version, data)\n    return None\n",
    'FileNotFoundError': "open('/nonexistent/pelverif/table.json')\n",
    'ImportError': "import pelverif_module_that_does_not_exist\n",
}

PACKAGES = ('udparsers', 'srcparsers', 'calloutparsers')
SHIPPED = {'udparsers': {'m2c00', 'oe500'}, 'srcparsers': {'osrc', 'oe500'}, 'calloutparsers': {'ocallouts'}}

RAISES = ['ValueError', 'KeyError', 'AssertionError', 'ZeroDivisionError', 'UnicodeDecodeError', 'ImportError',
          'ModuleNotFoundError', 'LazyImport', 'RuntimeError']


def ud_module_name(creator_chr, comp):
    return (creator_chr.lower() + '%04x' % comp).lower()


def safe_module_name(name):
    return bool(name) and all(c.isalnum() or c == '_' for c in name) and name.isascii()


class State:
    def __init__(self):
        self.behaviour = {}
        self.calls = []


def install_state():
    st = sys.modules.get('pelverif_fixture_state')
    if st is None:
        st = types.ModuleType('pelverif_fixture_state')
        st.behaviour = {}
        st.calls = []
        sys.modules['pelverif_fixture_state'] = st
    return st


class PluginFixtures:
    """Context manager: materialises fixture modules and makes them importable
    through the repo's plug-in packages for the duration of one case.

    spec: {'udparsers': {name: behaviour-or-None}, 'srcparsers': {...}, 'calloutparsers': {...}}
    """

    def __init__(self, spec, root=None):
        self.spec = spec
        self.root = root
        self.own_root = root is None
        self.added = []
        self.state = None

    def full_names(self):
        out = []
        for pkg in PACKAGES:
            for name in (self.spec.get(pkg) or {}):
                out.append('%s.%s.%s' % (pkg, name, name))
        return out

    def write(self, root):
        for pkg in PACKAGES:
            for name in (self.spec.get(pkg) or {}):
                if name in SHIPPED[pkg] or not safe_module_name(name):
                    raise ValueError('bad fixture module name %r' % name)
                d = os.path.join(root, pkg, name)
                os.makedirs(d, exist_ok=True)
                open(os.path.join(d, '__init__.py'), 'w').close()
                beh = (self.spec.get(pkg) or {}).get(name)
                with open(os.path.join(d, name + '.py'), 'w') as f:
                    if isinstance(beh, dict) and beh.get('kind') == 'import-fails':
                        # a module that exists but fails while being imported
                        f.write(IMPORT_FAIL_BODY[beh.get('how', 'RuntimeError')])
                    else:
                        f.write(FIXTURE_BODY.replace('%(kind)r', repr(pkg)))

    def __enter__(self):
        _run.mods()
        if self.own_root:
            self.root = tempfile.mkdtemp(prefix='pelverif_%s_fix' % os.environ.get('PELVERIF_RUN_TAG', 'x'), dir='/dev/shm' if os.path.isdir('/dev/shm') else None)
        self.write(self.root)
        self.state = install_state()
        self.state.behaviour.clear()
        del self.state.calls[:]
        for pkg in PACKAGES:
            for name, beh in (self.spec.get(pkg) or {}).items():
                if beh:
                    self.state.behaviour['%s.%s.%s' % (pkg, name, name)] = json.loads(json.dumps(beh))
            mod = importlib.import_module(pkg)
            p = os.path.join(self.root, pkg)
            if os.path.isdir(p) and p not in mod.__path__:
                mod.__path__.append(p)
                self.added.append((mod, p))
        purge_plugin_modules()
        importlib.invalidate_caches()
        _run.reset_caches()
        return self

    @property
    def calls(self):
        return list(self.state.calls)

    def __exit__(self, *a):
        for mod, p in self.added:
            try:
                mod.__path__.remove(p)
            except ValueError:
                pass
        purge_plugin_modules()
        importlib.invalidate_caches()
        _run.reset_caches()
        if self.state is not None:
            self.state.behaviour.clear()
        if self.own_root:
            shutil.rmtree(self.root, ignore_errors=True)


def purge_plugin_modules():
    """forget every imported plug-in module except the bare packages and the
    shipped modules the harness itself imported"""
    for name in list(sys.modules):
        for pkg in PACKAGES:
            if name.startswith(pkg + '.'):
                parts = name.split('.')
                if parts[1] not in SHIPPED[pkg]:
                    del sys.modules[name]
                    parent = sys.modules.get('.'.join(parts[:-1]))
                    if parent is not None and hasattr(parent, parts[-1]):
                        try:
                            delattr(parent, parts[-1])
                        except AttributeError:
                            pass


def plugin_modules_loaded():
    """names of plug-in modules (beyond the bare packages) in sys.modules"""
    return sorted(n for n in sys.modules for pkg in PACKAGES if n.startswith(pkg + '.'))
