"""Realistic slips used by tools/selftest.py: (property, name, file, old, new[, facets])."""
P = 'modules/pel/peltool/'
IO = 'modules/io_drawer/'

MUTANTS = [
    # ---- C01
    ('C01', 'default-datalength-off-by-one', P + 'default.py', 'self.dataLength = sectionLen - 8', 'self.dataLength = sectionLen - 7'),
    ('C01', 'ed-datalength-misses-creator-word', P + 'ext_user_data.py', 'dataLength = sectionLen - 4 - 8', 'dataLength = sectionLen - 8'),
    ('C01', 'lp-pad-on-even-count', P + 'imp_partition.py', 'if self.targetLPcount % 2:', 'if self.targetLPcount % 2 == 0 and self.targetLPcount:'),
    ('C01', 'eh-skips-symptom-id', P + 'extend_user_header.py', 'if self.symptomIDSize != 0:', 'if self.symptomIDSize > 4:'),
    ('C01', 'numbering-counter-reset-bug', P + 'peltool.py', 'counts[name] = [counts[name][0]+1, 0]', 'counts[name] = [counts[name][0]+1, 1]'),
    ('C01', 'section-name-drops-high-byte', P + 'peltool.py', "id = chr((sectionID >> 8) & 0xFF) + chr(sectionID & 0xFF)", "id = chr((sectionID >> 8) & 0x7F) + chr(sectionID & 0xFF)"),
    ('C01', 'callout-size-not-advanced-for-mru', P + 'src.py', '                currentSize += self.mru.flattenedSize\n', ''),
    ('C01', 'callout-size-not-advanced-for-fru', P + 'src.py', '                currentSize += self.fruIdentity.flattenedSize\n', ''),
    # ---- C02
    ('C02', 'swap-create-commit', P + 'private_header.py', 'out["Created at"] = self.createTime', 'out["Created at"] = self.commitTime'),
    ('C02', 'states-shift-16', P + 'user_header.py', '(self.states & 0x0000FF00) >> 8', '(self.states & 0x00FF0000) >> 16'),
    ('C02', 'mt-serial-not-stripped', P + 'failing_mtms.py', 'out["Serial Number"] = self.serialNumber.strip("\\u0000")', 'out["Serial Number"] = self.serialNumber'),
    ('C02', 'timestamp-month-day-swapped', P + 'private_header.py', 'createTime = month + "/" + day', 'createTime = day + "/" + month'),
    ('C02', 'action-flag-mask-wrong', P + 'pel_values.py', '0x0400: "Isolation Incomplete', '0x0200: "Isolation Incomplete'),
    ('C02', 'phyp-test-on-wrong-creator', P + 'comp_id.py', 'creatorIDs[creatorID] == "PHYP"', 'creatorIDs[creatorID] == "HMC"'),
    ('C02', 'lp-log-id-read-as-2-bytes-plus-skip', P + 'imp_partition.py', 'self.logicalPartLogID = self.stream.get_int(4)', 'self.stream.get_int(2); self.logicalPartLogID = self.stream.get_int(2)'),
    ('C02', 'lp-only-last-target', P + 'imp_partition.py', 'for lp in self.targetLPs)', 'for lp in self.targetLPs[-1:])'),
    ('C02', 'eid-shows-plid', P + 'private_header.py', 'out["Entry Id"] = self.lEID', 'out["Entry Id"] = self.pLID'),
    ('C02', 'hidden-flag-dropped-from-list', P + 'user_header.py', 'if key & self.actionFlags:', 'if key & self.actionFlags & 0xBFFF:'),
    # ---- C03
    ('C03', 'hexword-index-off-by-one', P + 'src.py', 'tmpWord = "%08X" % self.hexData[num]', 'tmpWord = "%08X" % self.hexData[min(num + 1, 7)]'),
    ('C03', 'ccin-shift-8', P + 'src.py', '(self.hexData[1] >> 16)', '((self.hexData[1] >> 8) & 0xFFFF)'),
    ('C03', 'guarded-deconfigured-swapped', P + 'src.py', 'deconfigured = 0x02000000\n    guarded = 0x01000000', 'deconfigured = 0x01000000\n    guarded = 0x02000000'),
    ('C03', 'mru-id-from-priority', P + 'src.py', 'mruId += "%08X" % mru.id + ","', 'mruId += "%08X" % mru.priority + ","'),
    ('C03', 'callouts-reversed', P + 'src.py', 'for callout in callouts:\n            json = OrderedDict()', 'for callout in reversed(callouts):\n            json = OrderedDict()'),
    ('C03', 'ccin-supplied-flag-wrong', P + 'src.py', 'ccinSupplied = 0x04', 'ccinSupplied = 0x40'),
    ('C03', 'message-args-off-by-one-word', P + 'src.py', 'hex(self.hexData[int(arg[-1]) - 2])', 'hex(self.hexData[int(arg[-1]) - 3])'),
    ('C03', 'virtual-progress-bit-wrong', P + 'src.py', 'virtualProgressSRC = 0x80', 'virtualProgressSRC = 0x40'),
    ('C03', 'pce-name-dropped-when-mtm-empty', P + 'src.py', 'if len(callout.pceIdentity.pceName):', 'if len(callout.pceIdentity.pceName) and len(callout.pceIdentity.machineType):'),
    # ---- C06
    ('C06', 'pad-before-colon', P + 'peltool.py', 'ind = match.end() - CHARACTER_SPACE\n', 'ind = match.end() - CHARACTER_SPACE - 1\n'),
    ('C06', 'first-quote-colon-anywhere', P + 'peltool.py', "match = keyRE.match(line)", "match = re.search(r'\":', line)"),
    ('C06', 'strip-line-first', P + 'peltool.py', 'lines[i] = line[:ind] + spaces + line[ind:]', 'lines[i] = line[:ind].rstrip() + spaces + line[ind:].strip()'),
    # ---- C07
    ('C07', 'hidden-branch-ignores-only', P + 'peltool.py', """    if config.hidden and uh.isHidden():
        if config.only and config.severities and not considerPELIfSeverityMatches(uh, config):""", """    if config.hidden and uh.isHidden():
        if False and config.severities and not considerPELIfSeverityMatches(uh, config):"""),
    ('C07', 'serviceable-without-hidden-test', P + 'user_header.py', 'if not self.isHidden():\n                    return True', 'if True:\n                    return True'),
    ('C07', 'critical-term-0x50', P + 'pel_types.py', 'critSysTermSeverity = 0x51', 'critSysTermSeverity = 0x50'),
    ('C07', 'N-mapped-to-hidden', P + 'peltool.py', 'if args.non_serviceable:\n        config.non_serviceable = True', 'if args.non_serviceable:\n        config.hidden = True'),
    ('C07', 'default-shows-hidden', P + 'peltool.py', 'if config.only or uh.isHidden() or not uh.isServiceable():', 'if config.only or not uh.isServiceable():'),
    ('C07', 'severity-prefix-match-again', P + 'peltool.py', 'if (uh.eventSeverity >> 4) == sev:', 'if hex(uh.eventSeverity).startswith(hex(sev)):'),
    ('C07', 'severities-extend-once', P + 'peltool.py', 'config.severities.extend(severityGroupValues[sev] for sev in args.severities)', 'config.severities.append(severityGroupValues[args.severities[0]])'),
    # ---- C13
    ('C13', 'ascii-column-not-padded', 'modules/pel/hexdump.py', "text = text.ljust(bytes_per_line)", "text = text"),
    ('C13', 'chunk-separator-off', 'modules/pel/hexdump.py', 'if 0 != j and 0 == j % bytes_per_chunk:', 'if 0 != j and 1 == j % bytes_per_chunk:'),
    ('C13', 'last-line-not-padded', 'modules/pel/hexdump.py', 'raw  = raw.ljust(char_per_line)', 'raw  = raw'),
    ('C13', 'parse-ignores-short-lines', 'modules/pel/hexdump.py', 'if len(line) <= len(line_format):', 'if len(line) == len(line_format):'),
    ('C13', 'parse-literal-mismatch-continues', 'modules/pel/hexdump.py', "elif (line_format[i] != line[i]):\n                    break", "elif (line_format[i] != line[i]):\n                    continue"),
    ('C13', 'offset-in-decimal', 'modules/pel/hexdump.py', 'dump.append(("%08X     %s     %s") % (i, raw, text))', 'dump.append(("%08d     %s     %s") % (i, raw, text))'),
    ('C13', 'hex-display-drops-last-line', P + 'peltool.py', 'for line in hexdata:\n            print(line)', 'for line in hexdata[:-1] or hexdata:\n            print(line)'),
    # ---- C14
    ('C14', 'last-match-wins', IO + 'ilog.py', """        for entry in self.entries:
            if entry.matches(pte):
                return entry
        return None""", """        found = None
        for entry in self.entries:
            if entry.matches(pte):
                found = entry
        return found"""),
    ('C14', 'clear-flag-before-exact-match', IO + 'ilog.py', """        if self._is_exact_match(pte):
            return True

""", """"""),
    ('C14', 'error-mask-0xE', IO + 'ilog.py', 'ERROR_MASK = 0xF0000000', 'ERROR_MASK = 0xE0000000'),
    ('C14', 'skip-when-pte-zero-only', IO + 'ilog.py', 'if (timestamp == 0) and (seq_num == 0) and (pte == 0x00000000):', 'if (pte == 0x00000000):'),
    ('C14', 'timestamp-gt-ffff', 'modules/io_drawer/utils.py', '(timestamp >= 0xFFFF)', '(timestamp > 0xFFFF)'),
    ('C14', 'params-0-based', IO + 'ilog.py', 'pte_bytes[p - 1] for p in self.params', 'pte_bytes[p % 4] for p in self.params'),
    ('C14', 'partial-entry-read', IO + 'ilog.py', 'while stream.check_range(ILOG_ENTRY_SIZE):', 'while stream.check_range(ILOG_ENTRY_SIZE - 1):'),
    # ---- C15
    ('C15', 'max-data-len-ge', IO + 'trace.py', 'if self.length > self.MAX_DATA_LEN:', 'if self.length >= self.MAX_DATA_LEN:'),
    ('C15', 'pad-computed-wrong', IO + 'trace.py', 'pad_size = 4 - (self.length % 4)', 'pad_size = (self.length % 4)'),
    ('C15', 'first-partial-match', IO + 'trace.py', 'elif trace_string.is_partial_match(hash_value):\n                partial_match = trace_string', 'elif trace_string.is_partial_match(hash_value) and partial_match is None:\n                partial_match = trace_string'),
    ('C15', 'args-little-endian', IO + 'trace.py', "stream = DataStream(self.data, byte_order='big', is_signed=False)\n            for i in range(self.MAX_ARGS)", "stream = DataStream(self.data, byte_order='little', is_signed=False)\n            for i in range(self.MAX_ARGS)"),
    ('C15', 'loop-le-size', IO + 'trace.py', 'while stream.index < self.header.size:', 'while stream.index <= self.header.size:'),
    ('C15', 'max-args-4', IO + 'trace.py', 'MAX_ARGS = 5', 'MAX_ARGS = 4'),
    ('C15', 'binary-trace-not-dumped', IO + 'trace.py', 'if entry.is_binary_trace() or (trace_string is None) or is_partial_match:', 'if (trace_string is None) or is_partial_match:'),
    # ---- C16
    ('C16', 'little-endian', IO + 'hlog.py', "stream = DataStream(data, byte_order='big', is_signed=False)", "stream = DataStream(data, byte_order='little', is_signed=False)"),
    ('C16', 'continue-on-short-field', IO + 'hlog.py', 'if not stream.check_range(field.size):\n            break', 'if not stream.check_range(field.size):\n            continue'),
    ('C16', 'zero-filter-on-high-byte', IO + 'hlog.py', 'if value != 0:', 'if (value >> (8 * (field.size - 1))) != 0:'),
    ('C16', 'width-not-doubled', IO + 'hlog.py', '0x{value:0{field.size * 2}X}', '0x{value:0{field.size}X}'),
    ('C16', 'dump-of-truncated-data', IO + 'hlog.py', 'lines.extend(hexdump(data))', 'lines.extend(hexdump(data[:64]))'),
    # ---- C17
    ('C17', 'offsets-not-sorted', IO + 'dump.py', 'buffer_offsets = sorted(buffer_offsets)', 'buffer_offsets = list(buffer_offsets)'),
    ('C17', 'ilog-ends-at-last-header', IO + 'dump.py', 'end = buffer_offsets[0]\n', 'end = buffer_offsets[-1]\n'),
    ('C17', 'regions-run-to-end', IO + 'dump.py', 'end = buffer_offsets[i + 1]', 'end = len(data)'),
    ('C17', 'format-loop-keeps-last', IO + 'dump.py', '        if data:\n            break\n', ''),
    ('C17', 'search-from-offset-1', IO + 'dump.py', 'offset = data_bytes.find(start_bytes)', 'offset = data_bytes.find(start_bytes, 1)'),
    ('C17', 'empty-input-gets-ilog-heading', IO + 'dump.py', '    if not data:\n        return lines\n', ''),
    # ---- C04
    ('C04', 'text-printable-bound', P + 'parse_user_data.py', "ord(ch) > ord('~')", "ord(ch) >= ord('~')"),
    ('C04', 'plugins-off-returns-empty', P + 'parse_user_data.py', """                if self.data:
                    mv = memoryview(self.data)
                    d["Data"] = hexdump(mv)
                return json.dumps(d)

        # Catch""", """                return json.dumps(d)

        # Catch"""),
    ('C04', 'exception-path-drops-data', P + 'parse_user_data.py', """                              .format(self.creatorID, "0x%04X" % self.compID, "0x%X" % self.subType, self.version, e))
            if self.data:""", """                              .format(self.creatorID, "0x%04X" % self.compID, "0x%X" % self.subType, self.version, e))
            if False:"""),
    ('C04', 'none-guard-removed', P + 'parse_user_data.py', 'if value == None:', 'if False:'),
    ('C04', 'default-dumps-from-1', P + 'default.py', 'mv = memoryview(self.data)', 'mv = memoryview(self.data)[1:]'),
    ('C04', 'json-rstrip-before-strip', P + 'parse_user_data.py', "string = bytes.decode(self.data).strip().rstrip('\\x00')", "string = bytes.decode(self.data).rstrip('\\x00')[:-1]"),
    ('C04', 'text-drops-empty-lines', P + 'parse_user_data.py', """                else:
                    lines.append(line)
                    line = ''

            if line""", """                else:
                    if line:
                        lines.append(line)
                    line = ''

            if line"""),
    ('C04', 'ud-dict-result-under-data', P + 'user_data.py', "if not isinstance(j, dict):\n            out['Data'] = j", "if True:\n            out['Data'] = j"),
    ('C04', 'ed-payload-includes-reserved', P + 'ext_user_data.py', """        self.reserved2B = stream.get_int(2)
        self.data = stream.get_mem(dataLength)""", """        self.data = stream.get_mem(dataLength + 2)[:dataLength]"""),
    # ---- C20
    ('C20', 'node-attn-swapped', 'modules/pel/hwdiags/parserdata.py', "node_pos  = int(word_b[4:6], base=16)\n        attn_type = int(word_b[6:8], base=16)", "node_pos  = int(word_b[6:8], base=16)\n        attn_type = int(word_b[4:6], base=16)"),
    ('C20', 'sig-id-not-lowered', 'modules/pel/hwdiags/parserdata.py', "        sig_id  = sig_id.lower()\n", ""),
    ('C20', 'missing-bit-raises', 'modules/pel/hwdiags/parserdata.py', """            sig_desc = self._data[model_ec]["signatures"][sig_id][1][sig_bit]
        except KeyError:""", """            sig_desc = self._data[model_ec]["signatures"][sig_id][1][sig_bit]
        except IndexError:"""),
    ('C20', 'reg-data-chunk-from-1', 'modules/udparsers/oe500/oe500.py', 'for i in range(0, len(data_buf), data_chunk_len):', 'for i in range(1, len(data_buf), data_chunk_len):'),
    ('C20', 'chip-pos-read-as-1-byte', 'modules/udparsers/oe500/oe500.py', "chip_pos = stream.get_int(2)\n        node_pos = stream.get_int(1)", "chip_pos = stream.get_int(1)\n        node_pos = stream.get_int(2) & 0xFF"),
    ('C20', 'src-words-shifted', 'modules/srcparsers/oe500/oe500.py', 'parser.get_signature(word6, word7, word8)', 'parser.get_signature(word7, word8, word9)'),
    ('C20', 'sig-inst-bit-swapped', 'modules/pel/hwdiags/parserdata.py', "sig_inst  = int(word_c[4:6], base=16)\n        sig_bit   = int(word_c[6:8], base=16)", "sig_inst  = int(word_c[6:8], base=16)\n        sig_bit   = int(word_c[4:6], base=16)"),
    ('C20', 'scom-value-4-bytes', 'modules/udparsers/oe500/oe500.py', "scomValue = '0x' + stream.get_mem(8).hex()", "scomValue = '0x' + stream.get_mem(4).hex()"),
    ('C20', 'reg-address-base-10', 'modules/pel/hwdiags/parserdata.py', 'reg_addr = int(reg_addr, base=16)', 'reg_addr = int(reg_addr, base=16) & 0xFFFFFF'),
    ('C20', 'attn-lookup-by-hex', 'modules/pel/hwdiags/parserdata.py', "attn_type = str(attn_type)", "attn_type = '%x' % attn_type"),
    # ---- C05
    ('C05', 'check-range-off-by-one', 'modules/pel/datastream.py', 'return True if self.index + num_bytes <= self.size else False', 'return True if self.index + num_bytes <= self.size + 1 else False'),
    ('C05', 'bounds-checks-back-to-assert', 'modules/pel/datastream.py', ["""        if not self.check_range(num_bytes):
            raise AssertionError("range check failure")
        self.index += num_bytes""", """        if not self.check_range(num_bytes):
            raise AssertionError("range check failure")
        o_mv ="""], ["""        assert self.check_range(num_bytes), "range check failure"
        self.index += num_bytes""", """        assert self.check_range(num_bytes), "range check failure"
        o_mv ="""]),
    ('C05', 'file-barrier-narrowed', P + 'peltool.py', """    except Exception as e:
        print(f"Exception: No PEL parsed for {file_path}: {e}", file=sys.stderr)""", """    except AssertionError as e:
        print(f"Exception: No PEL parsed for {file_path}: {e}", file=sys.stderr)"""),
    ('C05', 'exit-3-on-bad-ph', P + 'peltool.py', """    ret, ph = generatePH(stream, out)
    if ret is False:
        if exit_on_error:
            sys.exit(1)""", """    ret, ph = generatePH(stream, out)
    if ret is False:
        if exit_on_error:
            sys.exit(3)"""),
    ('C05', 'sys-exit-in-library-path', P + 'peltool.py', """    if ret is False:
        if exit_on_error:
            sys.exit(1)
        else:
            return "", ""

    eid = ph.lEID""", """    if ret is False:
        sys.exit(1)

    eid = ph.lEID"""),
    ('C05', 'lp-targets-not-bounded', P + 'imp_partition.py', 'self.targetLPs.append(self.stream.get_int(2))', 'self.targetLPs.append(int.from_bytes(self.stream.data[self.stream.index:self.stream.index + 2], "big")); self.stream.index += 2'),
    # ---- C08
    ('C08', 'file-list-not-sorted', P + 'peltool.py', '    file_list.sort(reverse=rev)\n', '    if rev:\n        file_list.reverse()\n'),
    ('C08', 'count-ignores-extension', P + 'peltool.py', 'root, file_list = getFileList(path, config.extension)\n    for file in file_list:\n        with open', 'root, file_list = getFileList(path, None)\n    for file in file_list:\n        with open'),
    ('C08', 'summary-plid-shows-eid', P + 'peltool.py', 'summary["PLID"] = ph.pLID', 'summary["PLID"] = ph.lEID'),
    ('C08', 'summary-commit-shows-create', P + 'peltool.py', 'summary["Commit Time"] = ph.commitTime', 'summary["Commit Time"] = ph.createTime'),
    ('C08', 'all-comma-after-each', P + 'peltool.py', """                        if firstPELPrinted:
                            print(",")
                        print(json_string, end = "")""", """                        print(json_string, end = "")
                        print(",")"""),
    ('C08', 'count-counts-before-filter', P + 'peltool.py', """                if not considerPEL(uh, config):
                    continue
                count+= 1""", """                count+= 1
                if not considerPEL(uh, config):
                    continue"""),
    ('C08', 'reverse-ignored-in-list', P + 'peltool.py', 'def listOption(path: str, config: Config):\n    root, file_list = getFileList(path, config.extension, config.rev)', 'def listOption(path: str, config: Config):\n    root, file_list = getFileList(path, config.extension)'),
    # ---- C09
    ('C09', 'list-barrier-narrowed', P + 'peltool.py', """                else:
                    return eid, summary
        except Exception as e:""", """                else:
                    return eid, summary
        except AssertionError as e:"""),
    ('C09', 'first-printed-set-before-decode', P + 'peltool.py', """                _, json_string = parsePEL(stream, config, False)
                if json_string:
                    if not config.hex:
                        if firstPELPrinted:
                            print(",")
                        print(json_string, end = "")
                        firstPELPrinted = True""", """                if not config.hex and firstPELPrinted:
                    print(",")
                firstPELPrinted = True
                _, json_string = parsePEL(stream, config, False)
                if json_string:
                    if not config.hex:
                        print(json_string, end = "")"""),
    ('C09', 'walk-descends-into-subdirs', P + 'peltool.py', """            file_list.append(file)  ## create list of file names
        # Only process top level directory
        break""", """            file_list.append(os.path.relpath(os.path.join(root, file), path))  ## create list of file names"""),
    ('C09', 'diagnostic-on-stdout', P + 'peltool.py', """            print(f"Exception: No PEL parsed for {file}: {e}", file=sys.stderr)
    return "", \"\"""", """            print(f"Exception: No PEL parsed for {file}: {e}")
    return "", \"\""""),
    # ---- C10
    ('C10', 'plid-startswith', P + 'peltool.py', 'if plid == pelPLID.zfill(8):', 'if pelPLID.zfill(8).startswith(plid[:4]):'),
    ('C10', 'plid-substring-again', P + 'peltool.py', 'if plid == pelPLID.zfill(8):', "if plid in summary['PLID']:"),
    ('C10', 'bmc-id-compared-with-plid', P + 'peltool.py', 'if str(ph.obmcLogID) == config.bmcID:', 'if str(int(ph.pLID, 16)) == config.bmcID:'),
    ('C10', 'src-must-be-prefix', P + 'peltool.py', "if config.src and config.src in summary['SRC']:", "if config.src and summary['SRC'].startswith(config.src):"),
    ('C10', 'exclude-test-inverted', P + 'peltool.py', "if summary['SRC'] not in src_exclude_file_data:", "if summary['SRC'] in src_exclude_file_data:"),
    ('C10', 'lookups-respect-class-default', P + 'peltool.py', """        if config.plid or config.src or config.bmcID or config.pelID \\
                or config.srcExcludeFile:
            return True""", """        if config.pelID:
            return True"""),
    ('C10', 'id-lowercased', P + 'peltool.py', '    pid = pid.upper()\n    if pid.startswith("0X"):', '    if pid.upper().startswith("0X"):'),
    # ---- C11
    ('C11', 'delete-without-break', P + 'peltool.py', """            os.remove(os.path.join(root, file))
            foundID = True
            break""", """            os.remove(os.path.join(root, file))
            foundID = True"""),
    ('C11', 'delete-all-descends', P + 'peltool.py', """            os.remove(os.path.join(root, file))
        # Only process top level directory
        break


def processId""", """            os.remove(os.path.join(root, file))


def processId"""),
    ('C11', 'list-removes-unparsable', P + 'peltool.py', """        except Exception as e:
            print(f"Exception: No PEL parsed for {file}: {e}", file=sys.stderr)
    return "", \"\"""", """        except Exception as e:
            print(f"Exception: No PEL parsed for {file}: {e}", file=sys.stderr)
            os.remove(file)
    return "", \"\""""),
    ('C11', 'json-name-without-eid', P + 'peltool.py', "os.path.basename(file) + '.' + eid + '.json'", "os.path.basename(file) + '.json'"),
    ('C11', 'delete-walks-subdirs', P + 'peltool.py', """            foundID = True
            break
        # Only process top level directory
        break
    if not foundID:
        print("PEL not found")


def parseAndPrintPELFile""", """            foundID = True
            break
        if foundID:
            break
    if not foundID:
        print("PEL not found")


def parseAndPrintPELFile"""),
    ('C11', 'json-writes-into-cwd-style-path', P + 'peltool.py', 'output_dir, os.path.basename(file)', 'os.path.dirname(file), os.path.basename(file)'),
    # ---- C12
    ('C12', 'remove-back-inside-with', P + 'peltool.py', """                    output.writelines(json_string)

                # Only remove the original once the output file has been
                # flushed and closed without error.
                if delete_after_parsing:
                    os.remove(file)""", """                    output.writelines(json_string)
                    if delete_after_parsing:
                        os.remove(file)"""),
    ('C12', 'file-clean-unconditional-again', P + 'peltool.py', 'if args.clean and printed:', 'if args.clean:'),
    ('C12', 'remove-before-flush', P + 'peltool.py', """                sys.stdout.flush()
                return True""", """                return True"""),
    ('C12', 'json-clean-removes-filtered', P + 'peltool.py', """            else:
                print(f"No PEL parsed for {file}", file=sys.stderr)""", """            else:
                print(f"No PEL parsed for {file}", file=sys.stderr)
                if delete_after_parsing:
                    os.remove(file)"""),
    # ---- C18
    ('C18', 'ud-name-not-lowered', P + 'parse_user_data.py', 'name = (self.creatorID.lower() + "%04X" % self.compID).lower()', 'name = (self.creatorID.lower() + "%04X" % self.compID)'),
    ('C18', 'subtype-version-swapped', P + 'parse_user_data.py', 'return cls.parseUDToJson(self.subType, self.version, mv)', 'return cls.parseUDToJson(self.version, self.subType, mv)'),
    ('C18', 'hexwords-from-index-1', P + 'src.py', """return cls.parseSRCToJson(self.asciiString, hexwords[0], hexwords[1], hexwords[2],
                                      hexwords[3], hexwords[4], hexwords[5], hexwords[6], hexwords[7])""", """return cls.parseSRCToJson(self.asciiString, hexwords[1], hexwords[2], hexwords[3],
                                      hexwords[4], hexwords[5], hexwords[6], hexwords[7], hexwords[7])"""),
    ('C18', 'callouts-ignore-plugins-off', P + 'src.py', """                    if config.allow_plugins:
                        self.getProcedureDesc(json["Procedure"], json)""", """                    if True:
                        self.getProcedureDesc(json["Procedure"], json)"""),
    ('C18', 'osrc-wrong-refcode-slice', 'modules/srcparsers/osrc/osrc.py', "component = subsystem + refcode[4:6].lower() + '00'", "component = subsystem + refcode[2:4].lower() + '00'"),
    ('C18', 'm2c00-ilog-routed-to-hlog', 'modules/udparsers/m2c00/m2c00.py', 'SUB_TYPE_ILOG: _parse_ilog,', 'SUB_TYPE_ILOG: _parse_hlog,'),
    ('C18', 'm2c00-version-off', 'modules/udparsers/m2c00/m2c00.py', 'if drawer_type.user_data_version == version:', 'if drawer_type.user_data_version == version or version == 3:'),
    ('C18', 'src-parse-ignores-plugins-off', P + 'src.py', """        if config.allow_plugins:
            value = self.parse(hexwords)""", """        if True:
            value = self.parse(hexwords)"""),
    ('C18', 'ud-parser-cached-by-creator-only', P + 'parse_user_data.py', ["""            if userDataParserMod in userDataParsers:
                cls = userDataParsers[userDataParserMod]""", """                userDataParsers[userDataParserMod] = cls"""], ["""            if self.creatorID in userDataParsers:
                cls = userDataParsers[self.creatorID]""", """                userDataParsers[self.creatorID] = cls"""]),
    ('C18', 'src-none-crashes-again', P + 'src.py', "if value and value != 'null':", "if value != '' and value != 'null':"),
    # ---- C19
    ('C19', 'hexdata-class-attribute', P + 'src.py', ["""        self.hexData = []
        self.srcType = 0""", """    - An optional subsection for Callouts
    \"\"\"
"""], ["""        self.srcType = 0""", """    - An optional subsection for Callouts
    \"\"\"
    hexData = []
"""]),
    ('C19', 'target-lps-accumulate', P + 'imp_partition.py', """        self.targetLPs = []

    def toJSON""", """
    targetLPs = []

    def toJSON"""),
    ('C19', 'ud-cache-keyed-by-component-only', P + 'parse_user_data.py', """            if userDataParserMod in userDataParsers:
                cls = userDataParsers[userDataParserMod]
            else:
                try:
                    cls = importlib.import_module(userDataParserMod)
                except ImportError:
                    # No print for informational purposes, this is encountered often, e.g. PHYP
                    cls = None
                userDataParsers[userDataParserMod] = cls""", """            if self.compID in userDataParsers:
                cls = userDataParsers[self.compID]
            else:
                try:
                    cls = importlib.import_module(userDataParserMod)
                except ImportError:
                    # No print for informational purposes, this is encountered often, e.g. PHYP
                    cls = None
                userDataParsers[self.compID] = cls"""),
    ('C19', 'registry-lookup-cached-by-code-only', P + 'registry.py', ["""        output = {}

        for pel in self.pels:""", """                output['Words6To9'] = pel['SRC']['Words6To9']

            return output"""], ["""        output = {}
        if not hasattr(self, '_cache'):
            self._cache = {}
        if code in self._cache:
            return self._cache[code]

        for pel in self.pels:""", """                output['Words6To9'] = pel['SRC']['Words6To9']

            self._cache[code] = output
            return output"""]),
    ('C19', 'callout-failure-disables-module', P + 'src.py', """        except Exception:
            pass

    def getCallouts""", """        except Exception:
            calloutParsers[calloutParserMod] = None

    def getCallouts"""),
    ('C19', 'section-list-default-arg', P + 'peltool.py', ["""def parsePEL(stream: DataStream, config: Config, exit_on_error: bool):
    out = OrderedDict()
""", """    section_jsons = []
    for _ in range(2, ph.sectionCount):
        sectionID, sectionLen, versionID, subType, componentID = parseHeader(
            stream)
        section_json = OrderedDict()
        sectionFun(stream, section_json, sectionID, sectionLen,
                   versionID, subType, componentID, ph.creatorID, config)
        section_jsons.append(section_json)

    buildOutput"""], ["""def parsePEL(stream: DataStream, config: Config, exit_on_error: bool, section_jsons=[]):
    out = OrderedDict()
""", """    for _ in range(2, ph.sectionCount):
        sectionID, sectionLen, versionID, subType, componentID = parseHeader(
            stream)
        section_json = OrderedDict()
        sectionFun(stream, section_json, sectionID, sectionLen,
                   versionID, subType, componentID, ph.creatorID, config)
        section_jsons.append(section_json)

    buildOutput"""]),
]
