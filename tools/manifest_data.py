SETUP_CMD = ("/venv/bin/python -c 'import hypothesis' 2>/dev/null || "
             "/venv/bin/pip install --no-index --find-links /opt/veriftools/wheels hypothesis")

HOOKS = {
    'guard': 'OPENPOWER_PEL_PARSERS_VERIF',
    'enable': 'no hooks are needed: all observation is done from outside the repository '
              '(wrapping module attributes in the harness process, fixture plug-in directories, forked CLI runs)',
    'baseline_off_cmd': 'cd /repo && /venv/bin/python -m pytest -ra -q -p no:cacheprovider --timeout=900',
    'source_commits': [],
    'add_only': True,
}

ENGINES = [
    {'name': 'pelverif', 'path': 'pelverif/',
     'serves_properties': [],
     'kind_free_text': 'Hypothesis property-based testing (generated PEL models + independent encoder as oracle, '
                       'stateful machines, exhaustive enumeration of small finite spaces, fault-point enumeration) '
                       'run in 16 forked shards; failures shrunk and saved as replay files re-executed without Hypothesis'},
]

NOTES = ('Every check is ./check <ID> quick|thorough; exit 0 = held, 1 = VIOLATION line printed, 2 = harness error. '
         'VERIF_SEED selects the derived Hypothesis seeds. Code under test is always /repo/modules of the working tree.')

CHECKS = {
    'C01': {
        'level': 'exploration',
        'technique': 'property-based testing: encode(model) -> parsePEL round trip against an independent encoder, '
                     'cursor-offset monitor, metamorphic single-section comparison, exhaustive adjacent-pair enumeration',
        'text': 'Thousands of generated well-formed PELs (every section kind, 0..253 sections, every creator) plus all '
                'ordered pairs of 20 section kinds x 3 size classes are decoded; names/numbering, section start offsets, '
                'final cursor, context independence of every entry and payload recovery are compared with an independent '
                'encoder. Sampling, not proof.',
        'note': 'trusts pelverif/model.py (encoder written from the PEL layout) and the repo name table; payload length >= 1',
    },
}

NOT_APPLICABLE = {}
