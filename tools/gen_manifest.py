#!/venv/bin/python
"""Regenerates MANIFEST.json from tools/manifest_data.py and validates it
against /root/.vp/MANIFEST.schema.json when jsonschema is available."""
import json
import os
import sys

HERE = os.path.dirname(os.path.abspath(__file__))
VERIF = os.path.dirname(HERE)
sys.path.insert(0, HERE)
import manifest_data as D  # noqa

props = [json.loads(l) for l in open(os.path.join(VERIF, 'properties.jsonl'))]
ids = [p['id'] for p in props]

checks = []
for pid in ids:
    c = D.CHECKS.get(pid)
    if not c:
        continue
    checks.append({
        'property_id': pid,
        'quick_cmd': './check %s quick' % pid,
        'thorough_cmd': './check %s thorough' % pid,
        'evidence_file': 'evidence/%s.json' % pid,
        'replay_cmd_template': './check %s --replay {path}' % pid,
        'engine': 'pelverif',
        'level_claimed': {'category': c['level'], 'text': c['text'], 'design_ref': 'DESIGN.md section 4, %s' % pid},
        'level_note': c['note'],
        'technique': c['technique'],
    })

na = [{'property_id': pid, 'reason': D.NOT_APPLICABLE.get(pid, 'check not built yet in this commit; planned in DESIGN.md section 4')}
      for pid in ids if pid not in D.CHECKS]

manifest = {
    'version': 1,
    'setup_cmd': D.SETUP_CMD,
    'hooks': D.HOOKS,
    'engines': D.ENGINES,
    'checks': checks,
    'notes': D.NOTES,
    'not_applicable': na,
}
out = os.path.join(VERIF, 'MANIFEST.json')
with open(out, 'w') as f:
    json.dump(manifest, f, indent=1)
    f.write('\n')
print('wrote', out, 'checks:', len(checks), 'not_applicable:', len(na))
