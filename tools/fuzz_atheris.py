#!/usr/bin/env python3-vt
"""Coverage-guided campaigns (atheris / libFuzzer) with the semantic oracle
inside the target.  Runs under the tooling interpreter (python3-vt); the repo
is stdlib-only so it imports there with PYTHONPATH=<repo>/modules.

usage: python3-vt [-O] tools/fuzz_atheris.py <target> <outdir> [libFuzzer args...]
targets: pel    any bytes offered as a PEL            (C05 oracle)
         ilog   any bytes as ILOG data, shipped table  (C14 reference decoder)
         trace  any bytes as trace data, shipped file  (C15 reference decoder)
         dump   any bytes as an I/O drawer dump        (C17 composition oracle)

A violating input is written to <outdir>/violation-<sha>.bin together with a
.txt explanation and the process exits with status 77.
"""
import hashlib
import os
import sys

HERE = os.path.dirname(os.path.abspath(__file__))
VERIF = os.path.dirname(HERE)
sys.path.insert(0, VERIF)

import atheris  # noqa: E402

from pelverif import repoenv  # noqa: E402
repoenv.activate()

with atheris.instrument_imports(include=['pel', 'io_drawer', 'udparsers', 'srcparsers', 'calloutparsers']):
    from pelverif import run as RUN  # noqa: E402
    RUN.mods()
    import io_drawer.ilog  # noqa: E402,F401
    import io_drawer.trace  # noqa: E402,F401
    import io_drawer.dump  # noqa: E402,F401
    import io_drawer.hlog  # noqa: E402,F401

from pelverif.core import Violation  # noqa: E402

TARGET = sys.argv[1]
OUTDIR = sys.argv[2]
os.makedirs(OUTDIR, exist_ok=True)
STATE = {}


def report(data, v):
    h = hashlib.sha1(data).hexdigest()[:16]
    with open(os.path.join(OUTDIR, 'violation-%s.bin' % h), 'wb') as f:
        f.write(data)
    with open(os.path.join(OUTDIR, 'violation-%s.txt' % h), 'w') as f:
        f.write('%s\n%s\n' % (v.sig, v.message))
    sys.stderr.write('VIOLATION-INPUT %s %s\n' % (h, v.sig))
    sys.stderr.flush()
    os._exit(77)


def t_pel(data):
    from pelverif import c05lib
    from pelverif.props import c05
    RUN.reset_caches()
    r = c05lib.outcome(data, True)
    c05.check_outcome(r, data, 'assertions %s' % ('off' if not __debug__ else 'on'))


def t_ilog(data):
    from pelverif import drawer as D
    from pelverif.props import c14
    if 'table' not in STATE:
        STATE['table'] = D.read_shipped_pte_table(D.shipped('mex_pte.h'))
    lines = RUN.guard('C14.decode', io_drawer.ilog.parse_ilog_data, memoryview(data), D.shipped('mex_pte.h'))
    c14.compare(lines, STATE['table'], data)


def t_trace(data):
    from pelverif import drawer as D
    if 'strings' not in STATE:
        with open(D.shipped('mexStringFile')) as f:
            STATE['strings'] = D.ref_trace_strings(f.read())
    lines = RUN.guard('C15.decode', io_drawer.trace.parse_trace_data, memoryview(data), D.shipped('mexStringFile'))
    D.compare_trace_output(lines, data, STATE['strings'], oracle='C15')


def t_dump(data):
    from pelverif.core import Note
    from pelverif.props import c17
    c17.check_dump(data, Note())


TARGETS = {'pel': t_pel, 'ilog': t_ilog, 'trace': t_trace, 'dump': t_dump}


def one_input(data):
    try:
        TARGETS[TARGET](data)
    except Violation as v:
        report(data, v)


def main():
    argv = [sys.argv[0]] + sys.argv[3:]
    atheris.Setup(argv, one_input)
    atheris.Fuzz()


if __name__ == '__main__':
    main()
