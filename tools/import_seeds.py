#!/venv/bin/python
"""Imports the sub-agents' seeded changes from /tmp/seed_Cxx into seeded/Cxx-k/."""
import json, os, shutil, sys, re
VERIF = os.path.dirname(os.path.dirname(os.path.abspath(__file__)))
args = sys.argv[1:]
prefix, offset = '/tmp/seed_', 0
if '--from' in args:
    i = args.index('--from'); prefix = args[i + 1]; del args[i:i + 2]
boffset = 0
if '--benign-offset' in args:
    i = args.index('--benign-offset'); boffset = int(args[i + 1]); del args[i:i + 2]
if '--offset' in args:
    i = args.index('--offset'); offset = int(args[i + 1]); del args[i:i + 2]
for pid in args:
    d = prefix + pid
    for k in (1, 2, 3):
        diff, demo, meta = [os.path.join(d, n % k) for n in ('seed%d.diff', 'demo%d.py', 'meta%d.json')]
        if not (os.path.exists(diff) and os.path.exists(demo) and os.path.exists(meta)):
            continue
        dst = os.path.join(VERIF, 'seeded', '%s-%d' % (pid, k + offset))
        os.makedirs(dst, exist_ok=True)
        shutil.copy(diff, os.path.join(dst, 'patch.diff'))
        text = open(demo).read()
        if d in text:
            # demos must not depend on the scratch worktree: they run with cwd = repository root
            text = text.replace(d + '/', './').replace(d, '.')
            print('  note: rewrote hard-coded worktree path in', demo)
        open(os.path.join(dst, 'demo.py'), 'w').write(text)
        m = json.load(open(meta))
        m['property'] = pid
        m['origin'] = 'written by an independent sub-agent that saw only the property text and a scratch worktree'
        json.dump(m, open(os.path.join(dst, 'meta.json'), 'w'), indent=1)
        print('imported', dst)

# benign (property-preserving) changes: seeded/benign/<ID>-<k>/
for pid in args:
    d = prefix + pid
    for k in (1, 2, 3):
        diff, demo, meta = [os.path.join(d, n % k) for n in ('benign%d.diff', 'benigndemo%d.py', 'benign%d.json')]
        if not (os.path.exists(diff) and os.path.exists(demo) and os.path.exists(meta)):
            continue
        dst = os.path.join(VERIF, 'seeded', 'benign', '%s-%d' % (pid, k + boffset))
        os.makedirs(dst, exist_ok=True)
        shutil.copy(diff, os.path.join(dst, 'patch.diff'))
        text = open(demo).read()
        if d in text:
            text = text.replace(d + '/', './').replace(d, '.')
        open(os.path.join(dst, 'demo.py'), 'w').write(text)
        m = json.load(open(meta))
        m['property'] = pid
        m['kind'] = 'benign'
        m['origin'] = 'written by an independent sub-agent that saw only the property text and a scratch worktree'
        json.dump(m, open(os.path.join(dst, 'meta.json'), 'w'), indent=1)
        print('imported', dst)
