#!/venv/bin/python
"""Runs the checks against the seeded property-breaking changes in seeded/.

For each seeded/<name>/ (patch.diff, demo.py, meta.json): copy /repo to a
scratch directory outside /repo and /verif, apply the patch, confirm the
repository's tests still pass and the demonstration fails (and passes without
the patch), then run the quick check of the property it breaks (and with --all
every quick check) with VERIF_REPO=<copy>.  Prints a table; scratch copies are
removed.

usage: tools/seedtest.py [--all] [--confirm-only] [--write [--append]] [name ...]
"""
import json
import os
import shutil
import subprocess
import sys
import tempfile
from concurrent.futures import ThreadPoolExecutor

HERE = os.path.dirname(os.path.abspath(__file__))
VERIF = os.path.dirname(HERE)
SEEDED = os.path.join(VERIF, 'seeded')
PY = '/venv/bin/python'


def sh(cmd, cwd, env=None, timeout=3600):
    return subprocess.run(cmd, cwd=cwd, env=env, capture_output=True, text=True, timeout=timeout)


def run_benign(name, all_checks):
    """a property-preserving change: tests pass, its demo passes with and without it, and the
    property's check must stay QUIET (any VIOLATION is a false alarm of the harness)"""
    d = os.path.join(SEEDED, 'benign', name)
    meta = json.load(open(os.path.join(d, 'meta.json')))
    pid = meta['property']
    tmp = tempfile.mkdtemp(prefix='pelbenign_')
    out = {'name': 'benign/' + name, 'property': pid}
    try:
        dst = os.path.join(tmp, 'repo')
        shutil.copytree('/repo', dst, ignore=shutil.ignore_patterns('.git', '__pycache__', '*.egg-info'))
        env = dict(os.environ, PYTHONPATH=os.path.join(dst, 'modules'), PYTHONDONTWRITEBYTECODE='1')
        demo = os.path.join(dst, 'demo_seed.py')
        shutil.copy(os.path.join(d, 'demo.py'), demo)
        p = sh([PY, demo], dst, env)
        out['demo_without'] = 'pass' if p.returncode == 0 else 'FAIL(%d)' % p.returncode
        p = sh(['patch', '-p1', '--no-backup-if-mismatch', '-i', os.path.join(d, 'patch.diff')], dst)
        if p.returncode != 0:
            out['error'] = 'patch does not apply: ' + (p.stdout + p.stderr)[-300:]
            return out
        p = sh([PY, '-m', 'pytest', '-q', '-p', 'no:cacheprovider'], dst, env)
        out['tests'] = 'pass' if p.returncode == 0 else 'FAIL'
        p = sh([PY, demo], dst, env)
        out['demo_with'] = 'pass' if p.returncode == 0 else 'FAILS'
        pids = [pid]
        if all_checks:
            man = json.load(open(os.path.join(VERIF, 'MANIFEST.json')))
            pids = [pid] + [c['property_id'] for c in man['checks'] if c['property_id'] != pid]
        alarms = []
        for q in pids:
            cenv = dict(os.environ, VERIF_REPO=dst, VERIF_EVIDENCE_DIR=os.path.join(tmp, 'ev'),
                        VERIF_REPLAY_DIR=os.path.join(tmp, 'rp'))
            p = sh([os.path.join(VERIF, 'check'), q, 'quick'], VERIF, cenv)
            if p.returncode != 0:
                detail = [l.strip() for l in p.stdout.splitlines() if l.startswith('  ')][:2]
                alarms.append((q, 'exit %d: %s %s' % (p.returncode, ' | '.join(detail)[:300], p.stderr.strip()[-200:])))
        out['alarms'] = alarms
        return out
    finally:
        shutil.rmtree(tmp, ignore_errors=True)


def run_seed(name, all_checks, confirm_only):
    d = os.path.join(SEEDED, name)
    meta = json.load(open(os.path.join(d, 'meta.json')))
    pid = meta['property']
    tmp = tempfile.mkdtemp(prefix='pelseed_')
    out = {'name': name, 'property': pid}
    try:
        dst = os.path.join(tmp, 'repo')
        shutil.copytree('/repo', dst, ignore=shutil.ignore_patterns('.git', '__pycache__', '*.egg-info'))
        env = dict(os.environ, PYTHONPATH=os.path.join(dst, 'modules'), PYTHONDONTWRITEBYTECODE='1')
        # the demonstrations were written to live in the repository root
        demo = os.path.join(dst, 'demo_seed.py')
        shutil.copy(os.path.join(d, 'demo.py'), demo)
        # demonstration passes on the unchanged tree
        p = sh([PY, demo], dst, env)
        out['demo_without'] = 'pass' if p.returncode == 0 else 'FAIL(%d)' % p.returncode
        p = sh(['patch', '-p1', '--no-backup-if-mismatch', '-i', os.path.join(d, 'patch.diff')], dst)
        if p.returncode != 0:
            out['error'] = 'patch does not apply: ' + (p.stdout + p.stderr)[-300:]
            return out
        p = sh([PY, '-m', 'pytest', '-q', '-p', 'no:cacheprovider'], dst, env)
        last = p.stdout.strip().splitlines()[-1] if p.stdout.strip() else ''
        out['tests'] = 'pass' if p.returncode == 0 else 'FAIL: ' + last
        p = sh([PY, demo], dst, env)
        out['demo_with'] = 'fails' if p.returncode != 0 else 'PASSES'
        if confirm_only:
            return out
        pids = [pid]
        if all_checks:
            man = json.load(open(os.path.join(VERIF, 'MANIFEST.json')))
            pids = [pid] + [c['property_id'] for c in man['checks'] if c['property_id'] != pid]
        caught = []
        for q in pids:
            cenv = dict(os.environ, VERIF_REPO=dst, VERIF_EVIDENCE_DIR=os.path.join(tmp, 'ev'),
                        VERIF_REPLAY_DIR=os.path.join(tmp, 'rp'))
            p = sh([os.path.join(VERIF, 'check'), q, 'quick'], VERIF, cenv)
            viol = [l for l in p.stdout.splitlines() if l.startswith('VIOLATION')]
            if p.returncode == 1 and viol:
                detail = [l.strip() for l in p.stdout.splitlines() if l.startswith('  ')][:2]
                caught.append((q, ' | '.join(detail)[:260]))
            elif p.returncode not in (0, 1):
                caught.append((q, 'HARNESS-ERROR exit %d: %s' % (p.returncode, p.stderr.strip()[-200:])))
        out['caught_by'] = caught
        return out
    finally:
        shutil.rmtree(tmp, ignore_errors=True)


def main():
    args = sys.argv[1:]
    all_checks = '--all' in args
    confirm_only = '--confirm-only' in args
    if '--benign' in args:
        bdir = os.path.join(SEEDED, 'benign')
        names = [a for a in args if not a.startswith('--')] or sorted(os.listdir(bdir))
        with ThreadPoolExecutor(max_workers=2) as ex:
            results = list(ex.map(lambda n: run_benign(n, all_checks), names))
        bad = 0
        for r in results:
            print('%-28s %s tests=%s demo(without/with)=%s/%s' % (r['name'], r['property'], r.get('tests'),
                                                                  r.get('demo_without'), r.get('demo_with')))
            if 'error' in r:
                print('    ERROR', r['error'])
            for q, detail in r.get('alarms', []):
                bad += 1
                print('    FALSE ALARM from %s: %s' % (q, detail))
            if not r.get('alarms') and 'error' not in r:
                print('    quiet')
        return 1 if bad else 0
    names = [a for a in args if not a.startswith('--')] or sorted(
        n for n in os.listdir(SEEDED) if os.path.isdir(os.path.join(SEEDED, n)) and n != 'benign')
    with ThreadPoolExecutor(max_workers=2) as ex:
        results = list(ex.map(lambda n: run_seed(n, all_checks, confirm_only), names))
    for r in results:
        print('%-28s %s tests=%s demo(without/with)=%s/%s' % (
            r['name'], r['property'], r.get('tests'), r.get('demo_without'), r.get('demo_with')))
        if 'error' in r:
            print('    ERROR', r['error'])
        for q, detail in r.get('caught_by', []):
            print('    caught by %s: %s' % (q, detail))
        if not confirm_only and not r.get('caught_by') and 'error' not in r:
            print('    NOT CAUGHT')
    if '--write' in args and not confirm_only:
        lines = ['# Seeded property-breaking changes and the checks that catch them', '',
                 'Regenerate with `tools/seedtest.py --write` (quick tier, VERIF_SEED default).', '',
                 '| seed | property | what the change does | needs to manifest | repo tests | demo without / with | caught by |',
                 '|---|---|---|---|---|---|---|']
        for r in results:
            meta = json.load(open(os.path.join(SEEDED, r['name'], 'meta.json')))
            caught = '; '.join('%s (%s)' % (q, d.split('|')[0].replace('facet=', '').strip()[:90])
                               for q, d in r.get('caught_by', [])) or '**not caught**'
            lines.append('| %s | %s | %s | %s | %s | %s / %s | %s |' % (
                r['name'], r['property'], str(meta.get('summary', '')).replace('|', '/').replace('\n', ' ')[:260],
                str(meta.get('needs_to_manifest', '')).replace('|', '/').replace('\n', ' ')[:260],
                r.get('tests'), r.get('demo_without'), r.get('demo_with'), caught))
        path = os.path.join(SEEDED, 'RESULTS.md')
        if '--append' in args and os.path.exists(path):
            # keep the rows of the seeds that were not run now, replace / add the rows of those that were
            ran = set(r['name'] for r in results)
            rows = [l for l in open(path).read().splitlines()[6:]
                    if l.startswith('| ') and l.split('|')[1].strip() not in ran]
            lines = lines[:6] + sorted(rows + lines[6:], key=lambda l: l.split('|')[1].strip())
        with open(path, 'w') as f:
            f.write('\n'.join(lines) + '\n')
    return 0


if __name__ == '__main__':
    sys.exit(main())
