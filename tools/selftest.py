#!/venv/bin/python
"""Sensitivity (mutation) self-test - not a registered check.

For each mutant in tools/mutants.py: copy /repo to a scratch directory outside
/repo and /verif, apply one small textual mutation, optionally confirm the
repo's own tests still pass on it, run the property's quick check with
VERIF_REPO=<copy> expecting exit 1 + a VIOLATION line, delete the copy.

usage: tools/selftest.py [--tests] [ID ...] [--name substr]
"""
import json
import os
import shutil
import subprocess
import sys
import tempfile
from concurrent.futures import ThreadPoolExecutor

HERE = os.path.dirname(os.path.abspath(__file__))
VERIF = os.path.dirname(HERE)
sys.path.insert(0, HERE)
from mutants import MUTANTS  # noqa


TESTS_ONLY = '--tests-only' in sys.argv


def run_one(m, with_tests):
    pid, name, path, old, new = m[:5]
    facets = m[5] if len(m) > 5 else []
    tmp = tempfile.mkdtemp(prefix='pelmut_')
    try:
        dst = os.path.join(tmp, 'repo')
        shutil.copytree('/repo', dst, ignore=shutil.ignore_patterns('.git', '__pycache__', '*.egg-info'))
        fp = os.path.join(dst, path)
        src = open(fp).read()
        edits = list(zip(old, new)) if isinstance(old, (list, tuple)) else [(old, new)]
        for o, n in edits:
            if src.count(o) < 1:
                return (pid, name, 'STALE', 'pattern not found in %s' % path)
            src = src.replace(o, n, 1)
        open(fp, 'w').write(src)
        tests = ''
        if with_tests:
            p = subprocess.run(['/venv/bin/python', '-m', 'pytest', '-q', '-p', 'no:cacheprovider', '-x'],
                               cwd=dst, env=dict(os.environ, PYTHONPATH=os.path.join(dst, 'modules')),
                               capture_output=True, text=True)
            tests = 'tests:%s' % ('pass' if p.returncode == 0 else 'FAIL')
        if TESTS_ONLY:
            return (pid, name, tests, '')
        env = dict(os.environ, VERIF_REPO=dst, VERIF_EVIDENCE_DIR=os.path.join(tmp, 'ev'),
                   VERIF_REPLAY_DIR=os.path.join(tmp, 'rp'))
        p = subprocess.run([os.path.join(VERIF, 'check'), pid, 'quick'] + list(facets), cwd=VERIF, env=env,
                           capture_output=True, text=True)
        viol = [l for l in p.stdout.splitlines() if l.startswith('VIOLATION')]
        if p.returncode == 1 and viol:
            detail = [l for l in p.stdout.splitlines() if l.startswith('  ')][:2]
            return (pid, name, 'caught', tests + ' ' + ' | '.join(d.strip()[:150] for d in detail))
        return (pid, name, 'MISSED' if p.returncode == 0 else 'ERROR(%d)' % p.returncode,
                tests + ' ' + (p.stderr.strip().splitlines()[-1] if p.stderr.strip() else ''))
    finally:
        shutil.rmtree(tmp, ignore_errors=True)


def main():
    args = sys.argv[1:]
    with_tests = '--tests' in args or TESTS_ONLY
    name_filter = None
    if '--name' in args:
        name_filter = args[args.index('--name') + 1]
    ids = [a.upper() for a in args if not a.startswith('--') and a != name_filter]
    todo = [m for m in MUTANTS if (not ids or m[0] in ids) and (not name_filter or name_filter in m[1])]
    with ThreadPoolExecutor(max_workers=3) as ex:
        results = list(ex.map(lambda m: run_one(m, with_tests), todo))
    bad = 0
    for pid, name, status, detail in results:
        print('%-4s %-44s %-8s %s' % (pid, name, status, detail))
        if status != 'caught' and not (TESTS_ONLY and status == 'tests:pass'):
            bad += 1
    print('%d mutants, %d not caught' % (len(results), bad))
    return 1 if bad else 0


if __name__ == '__main__':
    sys.exit(main())
