#!/venv/bin/python
"""Rewrites DESIGN.md section 7 from evidence/<ID>.json (must be quick runs) and
evidence/thorough/<ID>.json."""
import json
rows = []
for i in range(1, 21):
    pid = 'C%02d' % i
    q = json.load(open('/verif/evidence/%s.json' % pid))
    t = json.load(open('/verif/evidence/thorough/%s.json' % pid))
    if q['tier'] != 'quick':
        raise SystemExit('%s: evidence file is from a %s run; run ./check %s quick first' % (pid, q['tier'], pid))

    def f(e):
        c = e['coverage']
        return '%s cases (%s non-trivial), %d s' % ('{:,}'.format(c['evaluations']),
                                                     '{:,}'.format(c['distinct_nontrivial']), round(e['wall_s']))
    rows.append('| %s | %s | %s |' % (pid, f(q), f(t)))
table = '\n'.join(rows)
p = '/verif/DESIGN.md'
s = open(p).read()
i = s.index("## 7. Cost summary (16 cores)")
j = s.index("---------------------------------------------------------------------------\n\n## 8.")
new = '''## 7. Cost summary (16 cores)

Measured by the checks themselves (evidence files of the last quick run and of the
last thorough run, `evidence/thorough/`).  "cases" counts every execution of a
check function, including Hypothesis shrinking; for C07 and the C02 / C05 / C12
enumerations it counts the points covered.  Regenerate with `tools/cost_table.py`.

| property | quick | thorough |
|---|---|---|
''' + table + '''

The thorough figures for C14 / C17 include atheris campaigns that have since been
shortened (re-reading the header / string files under instrumentation costs ~50 ms
per execution).

'''
open(p, 'w').write(s[:i] + new + s[j:])
print(table)
